//! Concrete, replayable operations and the history driver that feeds monitors.
use crate::world::*;
use margined_perp::margined_engine as eng;
use margined_perp::margined_fee_pool as fp;
use margined_perp::margined_insurance_fund as ins;
use margined_perp::margined_pricefeed as pf;
use margined_perp::margined_vamm as vm;
use serde::{Deserialize, Serialize};
use serde_json::{json, Value};
use std::collections::{BTreeMap, BTreeSet};
use std::rc::Rc;

#[derive(Serialize, Deserialize, Clone, Debug)]
pub enum Op {
    Engine { sender: String, msg: eng::ExecuteMsg, funds: u128 },
    Vamm { sender: String, vamm: usize, msg: vm::ExecuteMsg },
    Insurance { sender: String, msg: ins::ExecuteMsg },
    FeePool { sender: String, msg: fp::ExecuteMsg },
    Feed { sender: String, msg: pf::ExecuteMsg },
    /// harness-level oracle move: price submitted with timestamp = now - back
    Oracle { price: u128, back: u64 },
    Advance {
        blocks: u64,
        secs: u64,
        #[serde(default)]
        nanos: u64,
    },
    Send { from: String, to: String, amount: u128 },
    Allowance { owner: String, amount: u128 },
    /// the next engine transaction attaches one coin of a foreign denomination as well: listed before (mode 1) or
    /// after (mode 2) the collateral coin
    ForeignCoin { mode: u8 },
}

impl Op {
    pub fn kind(&self) -> &'static str {
        match self {
            Op::Engine { msg, .. } => match msg {
                eng::ExecuteMsg::UpdateConfig { .. } => "eng_update_config",
                eng::ExecuteMsg::UpdatePauser { .. } => "eng_update_pauser",
                eng::ExecuteMsg::AddWhitelist { .. } => "eng_add_whitelist",
                eng::ExecuteMsg::RemoveWhitelist { .. } => "eng_remove_whitelist",
                eng::ExecuteMsg::OpenPosition { .. } => "open",
                eng::ExecuteMsg::ClosePosition { .. } => "close",
                eng::ExecuteMsg::Liquidate { .. } => "liquidate",
                eng::ExecuteMsg::PayFunding { .. } => "pay_funding",
                eng::ExecuteMsg::DepositMargin { .. } => "deposit",
                eng::ExecuteMsg::WithdrawMargin { .. } => "withdraw",
                eng::ExecuteMsg::SetPause { .. } => "eng_set_pause",
            },
            Op::Vamm { msg, .. } => match msg {
                vm::ExecuteMsg::UpdateConfig { .. } => "vamm_update_config",
                vm::ExecuteMsg::UpdateOwner { .. } => "vamm_update_owner",
                vm::ExecuteMsg::SwapInput { .. } => "vamm_swap_input",
                vm::ExecuteMsg::SwapOutput { .. } => "vamm_swap_output",
                vm::ExecuteMsg::SettleFunding {} => "vamm_settle_funding",
                vm::ExecuteMsg::SetOpen { .. } => "vamm_set_open",
            },
            Op::Insurance { msg, .. } => match msg {
                ins::ExecuteMsg::UpdateOwner { .. } => "ins_update_owner",
                ins::ExecuteMsg::AddVamm { .. } => "ins_add_vamm",
                ins::ExecuteMsg::RemoveVamm { .. } => "ins_remove_vamm",
                ins::ExecuteMsg::Withdraw { .. } => "ins_withdraw",
                ins::ExecuteMsg::ShutdownVamms {} => "ins_shutdown",
            },
            Op::FeePool { msg, .. } => match msg {
                fp::ExecuteMsg::UpdateOwner { .. } => "fp_update_owner",
                fp::ExecuteMsg::AddToken { .. } => "fp_add_token",
                fp::ExecuteMsg::RemoveToken { .. } => "fp_remove_token",
                fp::ExecuteMsg::SendToken { .. } => "fp_send_token",
            },
            Op::Feed { msg, .. } => match msg {
                pf::ExecuteMsg::AppendPrice { .. } => "feed_append",
                pf::ExecuteMsg::AppendMultiplePrice { .. } => "feed_append_multi",
                pf::ExecuteMsg::UpdateOwner { .. } => "feed_update_owner",
            },
            Op::Oracle { .. } => "oracle",
            Op::Advance { .. } => "advance",
            Op::Send { .. } => "send",
            Op::Allowance { .. } => "allowance",
            Op::ForeignCoin { .. } => "foreign_coin",
        }
    }
    pub fn sender(&self) -> Option<&str> {
        match self {
            Op::Engine { sender, .. }
            | Op::Vamm { sender, .. }
            | Op::Insurance { sender, .. }
            | Op::FeePool { sender, .. }
            | Op::Feed { sender, .. } => Some(sender.as_str()),
            Op::Send { from, .. } => Some(from.as_str()),
            Op::Allowance { owner, .. } => Some(owner.as_str()),
            Op::ForeignCoin { .. } => None,
            _ => None,
        }
    }
    pub fn is_engine(&self) -> bool {
        matches!(self, Op::Engine { .. })
    }
    /// for engine ops that name a vAMM: its address string
    pub fn engine_vamm(&self) -> Option<&str> {
        match self {
            Op::Engine { msg, .. } => match msg {
                eng::ExecuteMsg::OpenPosition { vamm, .. }
                | eng::ExecuteMsg::ClosePosition { vamm, .. }
                | eng::ExecuteMsg::Liquidate { vamm, .. }
                | eng::ExecuteMsg::PayFunding { vamm }
                | eng::ExecuteMsg::DepositMargin { vamm, .. }
                | eng::ExecuteMsg::WithdrawMargin { vamm, .. } => Some(vamm.as_str()),
                _ => None,
            },
            _ => None,
        }
    }
}

pub fn apply(w: &mut World, op: &Op, armed: Option<u32>) -> TxOut {
    match op {
        Op::Engine { sender, msg, funds } => {
            let a = w.engine.clone();
            let out = w.exec(sender, &a, msg, *funds, armed);
            if let (true, eng::ExecuteMsg::SetPause { pause }) = (out.ok, msg) {
                w.pause_shadow.set(*pause);
            }
            out
        }
        Op::Vamm { sender, vamm, msg } => {
            let a = w.vamms[*vamm].clone();
            w.exec(sender, &a, msg, 0, armed)
        }
        Op::Insurance { sender, msg } => {
            let a = w.insurance.clone();
            w.exec(sender, &a, msg, 0, armed)
        }
        Op::FeePool { sender, msg } => {
            let a = w.fee_pool.clone();
            w.exec(sender, &a, msg, 0, armed)
        }
        Op::Feed { sender, msg } => {
            let a = w.feed.clone();
            let o = w.exec(sender, &a, msg, 0, armed);
            if o.ok {
                match msg {
                    pf::ExecuteMsg::AppendPrice { price, timestamp, .. } => w.feed_hist.push((price.u128(), *timestamp)),
                    pf::ExecuteMsg::AppendMultiplePrice { prices, timestamps, .. } => {
                        match w.cfg.feed {
                            FeedKind::Real => {
                                for (p, t) in prices.iter().zip(timestamps.iter()) {
                                    w.feed_hist.push((p.u128(), *t));
                                }
                            }
                            FeedKind::Mock => {
                                if let (Some(p), Some(t)) = (prices.first(), timestamps.first()) {
                                    w.feed_hist.push((p.u128(), *t));
                                }
                            }
                        }
                    }
                    _ => {}
                }
            }
            o
        }
        Op::Oracle { price, back } => {
            let ts = w.now().saturating_sub(*back);
            w.set_oracle(*price, ts)
        }
        Op::Advance { blocks, secs, nanos } => {
            w.advance_ns(*blocks, *secs, *nanos);
            TxOut {
                ok: true,
                err: None,
                panicked: false,
                events: vec![],
                transfers: vec![],
                fault_armed: None,
                fault_fired: false,
                msg_tree: vec![],
                path: None,
            }
        }
        Op::Send { from, to, amount } => w.send_collateral(from, to, *amount),
        Op::ForeignCoin { mode } => {
            w.foreign_next.set(*mode);
            TxOut { ok: true, err: None, panicked: false, events: vec![], transfers: vec![], fault_armed: None, fault_fired: false, msg_tree: vec![], path: None }
        }
        Op::Allowance { owner, amount } => {
            if w.cw20.is_some() {
                w.set_allowance(owner, *amount)
            } else {
                TxOut {
                    ok: true,
                    err: None,
                    panicked: false,
                    events: vec![],
                    transfers: vec![],
                    fault_armed: None,
                    fault_fired: false,
                    msg_tree: vec![],
                    path: None,
                }
            }
        }
    }
}

pub struct Step {
    pub seq: usize,
    pub op: Op,
    pub armed: Option<u32>,
    pub pre: Rc<Snap>,
    pub post: Rc<Snap>,
    pub out: TxOut,
}

#[derive(Serialize, Clone, Debug)]
pub struct Violation {
    pub count: u64,
    pub property: String,
    pub rule: String,
    pub signature: String,
    pub detail: String,
    pub step: usize,
    pub replay: Value,
}

/// Everything a monitor reports; merged across histories and shards.
#[derive(Default)]
pub struct Report {
    pub evaluations: u64,
    pub distinct: BTreeSet<String>,
    pub counters: BTreeMap<String, u64>,
    pub samples: Vec<Value>,
    pub violations: Vec<Violation>,
    pub inconclusive: Vec<String>,
    pending: Vec<(String, String, String, String, usize)>,
}

impl Report {
    pub fn count(&mut self, key: &str) {
        *self.counters.entry(key.to_string()).or_insert(0) += 1;
    }
    pub fn count_n(&mut self, key: &str, n: u64) {
        *self.counters.entry(key.to_string()).or_insert(0) += n;
    }
    pub fn case(&mut self, case: String) {
        self.distinct.insert(case);
    }
    pub fn eval(&mut self) {
        self.evaluations += 1;
    }
    pub fn sample(&mut self, v: Value) {
        if self.samples.len() < 6 {
            self.samples.push(v);
        }
    }
    /// keep one sample per label (up to a cap) so rare paths are shown too
    pub fn sample_once(&mut self, label: &str, v: Value) {
        let key = format!("sampled:{}", label);
        if !self.counters.contains_key(&key) && self.samples.len() < 24 {
            self.counters.insert(key, 1);
            self.samples.push(json!({"label": label, "case": v}));
        }
    }
    pub fn violation(&mut self, prop: &str, rule: &str, signature: String, detail: String, step: usize) {
        self.pending.push((prop.to_string(), rule.to_string(), signature, detail, step));
    }
    pub fn inconclusive(&mut self, why: String) {
        if self.inconclusive.len() < 50 && !self.inconclusive.contains(&why) {
            self.inconclusive.push(why);
        }
    }
    /// keep the first witness per signature, count the rest
    pub fn push_violation(&mut self, v: Violation) {
        if let Some(e) = self.violations.iter_mut().find(|e| e.signature == v.signature && e.property == v.property) {
            e.count += 1;
        } else {
            self.violations.push(v);
        }
    }
    pub fn take_pending(&mut self) -> Vec<(String, String, String, String, usize)> {
        std::mem::take(&mut self.pending)
    }
}

pub trait Monitor {
    fn prop(&self) -> &'static str;
    fn begin(&mut self, _w: &World, _s0: &Snap, _r: &mut Report) {}
    /// may dry-run transactions; MUST leave the world exactly as found (checkpoint/restore)
    fn dry(&mut self, _w: &mut World, _op: &Op, _pre: &Snap, _r: &mut Report) {}
    fn pre(&mut self, _w: &World, _op: &Op, _pre: &Snap, _r: &mut Report) {}
    fn post(&mut self, w: &World, step: &Step, r: &mut Report);
    fn end(&mut self, _w: &World, _r: &mut Report) {}
}

/// Runs another property's monitor as an auxiliary oracle and reports what it finds under this property.
pub struct Relabel {
    pub inner: Box<dyn Monitor>,
    pub to: &'static str,
    pub prefix: &'static str,
}

impl Relabel {
    fn fix(&self, r: &mut Report) {
        let from = self.inner.prop();
        for p in r.pending.iter_mut() {
            if p.0 == from {
                p.0 = self.to.to_string();
                p.1 = format!("{}{}", self.prefix, p.1);
                p.2 = format!("{}{}", self.prefix, p.2);
            }
        }
    }
}

impl Monitor for Relabel {
    fn prop(&self) -> &'static str {
        self.to
    }
    fn begin(&mut self, w: &World, s0: &Snap, r: &mut Report) {
        self.inner.begin(w, s0, r);
        self.fix(r);
    }
    fn dry(&mut self, w: &mut World, op: &Op, pre: &Snap, r: &mut Report) {
        self.inner.dry(w, op, pre, r);
        self.fix(r);
    }
    fn pre(&mut self, w: &World, op: &Op, pre: &Snap, r: &mut Report) {
        self.inner.pre(w, op, pre, r);
        self.fix(r);
    }
    fn post(&mut self, w: &World, step: &Step, r: &mut Report) {
        self.inner.post(w, step, r);
        self.fix(r);
    }
    fn end(&mut self, w: &World, r: &mut Report) {
        self.inner.end(w, r);
        self.fix(r);
    }
}

/// One history: a deployment, the ops executed so far and the monitors watching it.
pub struct History {
    pub w: World,
    pub ops: Vec<(Op, Option<u32>)>,
    pub last: Rc<Snap>,
    pub monitors: Vec<Box<dyn Monitor>>,
    pub seed_tag: String,
    pub steps: u64,
    pub failed_tx: u64,
    pub panics: u64,
    pub kinds: BTreeMap<String, (u64, u64)>,
    pub errs: BTreeMap<String, u64>,
    /// cheap mode: skip snapshots (used by workloads whose monitors do their own observation)
    pub snapshots: bool,
}

impl History {
    pub fn new(cfg: &DeployCfg, mut monitors: Vec<Box<dyn Monitor>>, report: &mut Report, seed_tag: String) -> History {
        let w = World::deploy(cfg);
        let s0 = Rc::new(w.snap());
        for m in monitors.iter_mut() {
            m.begin(&w, &s0, report);
        }
        History {
            w,
            ops: vec![],
            last: s0,
            monitors,
            seed_tag,
            steps: 0,
            failed_tx: 0,
            panics: 0,
            kinds: BTreeMap::new(),
            errs: BTreeMap::new(),
            snapshots: true,
        }
    }

    pub fn replay_value(&self) -> Value {
        json!({
            "cfg": self.w.cfg,
            "seed_tag": self.seed_tag,
            "ops": self.ops.iter().map(|(o, a)| json!({"op": o, "armed": a})).collect::<Vec<_>>(),
        })
    }

    pub fn step(&mut self, op: Op, report: &mut Report) -> Rc<Step> {
        self.step_armed(op, None, report)
    }

    pub fn step_armed(&mut self, op: Op, armed: Option<u32>, report: &mut Report) -> Rc<Step> {
        let pre = self.last.clone();
        for m in self.monitors.iter_mut() {
            m.dry(&mut self.w, &op, &pre, report);
        }
        for m in self.monitors.iter_mut() {
            m.pre(&self.w, &op, &pre, report);
        }
        let out = apply(&mut self.w, &op, armed);
        self.ops.push((op.clone(), armed));
        self.steps += 1;
        let e = self.kinds.entry(op.kind().to_string()).or_insert((0, 0));
        if out.ok {
            e.0 += 1;
        } else {
            e.1 += 1;
            self.failed_tx += 1;
            if !out.fault_fired {
                let mut c: String = out.err_text().chars().filter(|c| !c.is_ascii_digit()).collect();
                c.truncate(110);
                *self.errs.entry(format!("{}: {}", op.kind(), c)).or_insert(0) += 1;
            }
        }
        if out.panicked {
            self.panics += 1;
        }
        let post = if self.snapshots { Rc::new(self.w.snap()) } else { pre.clone() };
        let mut out = out;
        out.path = Some(crate::mon::util::classify_path(&self.w, &op, &pre, &post, &out));
        let step = Rc::new(Step { seq: self.ops.len() - 1, op, armed, pre, post: post.clone(), out });
        self.last = post;
        for m in self.monitors.iter_mut() {
            m.post(&self.w, &step, report);
        }
        // attach replays to fresh violations
        self.flush_pending(report);
        step
    }

    fn flush_pending(&mut self, report: &mut Report) {
        let pend = report.take_pending();
        if pend.is_empty() {
            return;
        }
        let mut rv: Option<Value> = None;
        for (prop, rule, sig, detail, st) in pend {
            if let Some(e) = report.violations.iter_mut().find(|e| e.signature == sig && e.property == prop) {
                e.count += 1;
                continue;
            }
            if rv.is_none() {
                rv = Some(self.replay_value());
            }
            report.push_violation(Violation { count: 1, property: prop, rule, signature: sig, detail, step: st, replay: rv.clone().unwrap() });
        }
    }

    pub fn finish(&mut self, report: &mut Report) {
        for m in self.monitors.iter_mut() {
            m.end(&self.w, report);
        }
        self.flush_pending(report);
    }
}

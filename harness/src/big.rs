//! Minimal signed wide integer used by the monitors so that oracle arithmetic is never
//! done in the types under test (`Integer`, `Uint128`). Magnitude is a cosmwasm `Uint256`
//! (trusted base); all operations panic on 256-bit overflow, which monitors treat as
//! "inconclusive" (caught at the harness boundary), never as a violation.
use cosmwasm_std::Uint256;
use std::cmp::Ordering;
use std::fmt;

#[derive(Clone, Copy, Debug)]
pub struct Big {
    neg: bool,
    mag: Uint256,
}

impl Big {
    pub fn zero() -> Self {
        Big { neg: false, mag: Uint256::zero() }
    }
    pub fn u(v: u128) -> Self {
        Big { neg: false, mag: Uint256::from(v) }
    }
    pub fn i(v: i128) -> Self {
        Big { neg: v < 0, mag: Uint256::from(v.unsigned_abs()) }
    }
    pub fn sm(neg: bool, mag: u128) -> Self {
        Big { neg: neg && mag != 0, mag: Uint256::from(mag) }
    }
    fn norm(mut self) -> Self {
        if self.mag.is_zero() {
            self.neg = false;
        }
        self
    }
    pub fn is_zero(&self) -> bool {
        self.mag.is_zero()
    }
    pub fn is_neg(&self) -> bool {
        self.neg && !self.mag.is_zero()
    }
    pub fn is_pos(&self) -> bool {
        !self.neg && !self.mag.is_zero()
    }
    pub fn neg(self) -> Self {
        Big { neg: !self.neg, mag: self.mag }.norm()
    }
    pub fn abs(self) -> Self {
        Big { neg: false, mag: self.mag }
    }
    pub fn sign(&self) -> i32 {
        if self.mag.is_zero() {
            0
        } else if self.neg {
            -1
        } else {
            1
        }
    }
    pub fn add(self, o: Big) -> Big {
        if self.neg == o.neg {
            Big { neg: self.neg, mag: self.mag + o.mag }.norm()
        } else if self.mag >= o.mag {
            Big { neg: self.neg, mag: self.mag - o.mag }.norm()
        } else {
            Big { neg: o.neg, mag: o.mag - self.mag }.norm()
        }
    }
    pub fn sub(self, o: Big) -> Big {
        self.add(o.neg())
    }
    pub fn mul(self, o: Big) -> Big {
        Big { neg: self.neg != o.neg, mag: self.mag * o.mag }.norm()
    }
    /// division truncating toward zero
    pub fn div(self, o: Big) -> Big {
        Big { neg: self.neg != o.neg, mag: self.mag / o.mag }.norm()
    }
    /// floor division (toward -inf)
    pub fn div_floor(self, o: Big) -> Big {
        let q = self.div(o);
        let r = self.sub(q.mul(o));
        if !r.is_zero() && (r.is_neg() != o.is_neg()) {
            q.sub(Big::u(1))
        } else {
            q
        }
    }
    pub fn min(self, o: Big) -> Big {
        if self <= o {
            self
        } else {
            o
        }
    }
    pub fn max(self, o: Big) -> Big {
        if self >= o {
            self
        } else {
            o
        }
    }
    pub fn to_u128(&self) -> Option<u128> {
        if self.is_neg() {
            return None;
        }
        let s = self.mag.to_string();
        s.parse::<u128>().ok()
    }
    pub fn to_i128(&self) -> Option<i128> {
        let s = self.to_string();
        s.parse::<i128>().ok()
    }
    /// |self - o| <= tol
    pub fn within(&self, o: Big, tol: u128) -> bool {
        self.sub(o).abs() <= Big::u(tol)
    }
}

impl PartialEq for Big {
    fn eq(&self, o: &Big) -> bool {
        self.cmp(o) == Ordering::Equal
    }
}
impl Eq for Big {}
impl PartialOrd for Big {
    fn partial_cmp(&self, o: &Big) -> Option<Ordering> {
        Some(self.cmp(o))
    }
}
impl Ord for Big {
    fn cmp(&self, o: &Big) -> Ordering {
        match (self.is_neg(), o.is_neg()) {
            (true, false) => Ordering::Less,
            (false, true) => Ordering::Greater,
            (false, false) => self.mag.cmp(&o.mag),
            (true, true) => o.mag.cmp(&self.mag),
        }
    }
}
impl fmt::Display for Big {
    fn fmt(&self, f: &mut fmt::Formatter) -> fmt::Result {
        if self.is_neg() {
            write!(f, "-{}", self.mag)
        } else {
            write!(f, "{}", self.mag)
        }
    }
}

/// convert the repository's signed integer (as observed through its public fields) to Big
pub fn from_integer(v: &margined_common::integer::Integer) -> Big {
    Big::sm(v.negative, v.value.u128())
}

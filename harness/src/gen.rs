//! Workload generators: random engine histories plus directed macros that reach rare states
//! on purpose. Generators only *issue* operations (and read-only queries / dry-runs to size
//! them); every verdict is made by a monitor.
use crate::ops::*;
use crate::rng::Rng;
use crate::world::*;
use cosmwasm_std::Uint128;
use margined_perp::margined_engine as eng;
use margined_perp::margined_insurance_fund as ins;
use margined_perp::margined_vamm as vm;
use std::rc::Rc;

fn u(v: u128) -> Uint128 {
    Uint128::new(v)
}

#[derive(Clone, Debug)]
pub struct Profile {
    /// weights: native, cw20 6dp, cw20 9dp
    pub collateral_w: [u64; 3],
    pub feed_real_pct: u64,
    pub max_vamms: usize,
    pub fluct_pct: u64,
    pub fee_pct: u64,
    pub partial_choices: Vec<u128>, // in 1e-6 units of D (i.e. ppm)
    pub insurance_rich_pct: u64,
    pub steps: (u64, u64),
    /// random-op weights: open, close, deposit, withdraw, liquidate, pay_funding, oracle, advance, admin, donate, allowance
    pub w_ops: [u64; 11],
    /// macro weights: none, underwater, funding_shock, band_edge, same_block, admin_storm, reversal, boundary_leverage, withdraw_edge, limit_edge, caps
    pub w_macro: [u64; 11],
    pub macro_pct: u64,
    pub faulted: bool,
    pub zero_liq_fee_pct: u64,
    /// chance of an extra vAMM that is neither open nor registered at deployment
    pub extra_vamm_pct: u64,
    /// chance that the extra vAMM has decimals different from the engine's
    pub mismatch_decimals_pct: u64,
    /// chance (per random op) of undoing pause / closed / unregistered states
    pub heal_pct: u64,
    pub shutdown_pct: u64,
    /// per-mille chance of an address-aliasing attack instead of a random op
    pub alias_pct: u64,
    /// share of the 'same block' macro slot given to the pyramid macro
    pub pyramid_pct: u64,
    /// chance that a block advance carries a random sub-second offset
    pub subsecond_pct: u64,
    /// chance (per admin op) of a registry operation that must be refused (re-add / remove absent)
    pub bad_registry_pct: u64,
    /// chance that a history is a long one (400-1500 steps instead of `steps`): state that only accumulates
    /// (reserve snapshots, bad debt, registry churn, funding chains) needs length, not more histories
    pub long_pct: u64,
    /// chance that a call which needs no funds (PayFunding, Liquidate, WithdrawMargin) on a native-collateral deployment
    /// carries collateral coins anyway: they may only end up with the engine
    pub stray_funds_pct: u64,
    /// histories that start with a close whose whole-close price lands exactly on the band edge
    pub exact_edge_pct: u64,
    /// histories that start with a liquidation attempted while the spot price sits exactly on the band limit
    pub exact_edge_liq_pct: u64,
    /// chance (percent, per history) of the busy-market macro at the start of a history
    pub busy_pct: u64,
    /// chance (percent) that the extra (not live) vAMM names a second insurance fund that does list it
    pub foreign_fund_pct: u64,
    /// share of fee-pool re-pointings that name an address which is not in normal form
    pub malformed_addr_pct: u64,
    /// share of OpenPosition calls that also attach a coin of a foreign denomination (before or after the collateral coin)
    pub foreign_coin_pct: u64,
}

impl Default for Profile {
    fn default() -> Self {
        Profile {
            collateral_w: [4, 4, 2],
            feed_real_pct: 0,
            max_vamms: 3,
            fluct_pct: 30,
            fee_pct: 50,
            partial_choices: vec![0, 0, 250_000, 500_000, 950_000, 1_000_000],
            insurance_rich_pct: 70,
            steps: (40, 120),
            w_ops: [30, 10, 6, 8, 10, 6, 6, 14, 4, 2, 1],
            w_macro: [0, 4, 3, 2, 2, 1, 3, 1, 2, 2, 1],
            macro_pct: 12,
            faulted: false,
            zero_liq_fee_pct: 3,
            extra_vamm_pct: 10,
            mismatch_decimals_pct: 50,
            heal_pct: 30,
            shutdown_pct: 25,
            alias_pct: 15,
            pyramid_pct: 50,
            subsecond_pct: 50,
            bad_registry_pct: 25,
            long_pct: 2,
            stray_funds_pct: 0,
            exact_edge_pct: 2,
            exact_edge_liq_pct: 1,
            busy_pct: 1,
            foreign_fund_pct: 25,
            malformed_addr_pct: 20,
            foreign_coin_pct: 2,
        }
    }
}

pub fn rand_cfg(rng: &mut Rng, p: &Profile) -> DeployCfg {
    let collateral = match rng.weighted(&p.collateral_w) {
        0 => Collateral::Native,
        1 => Collateral::Cw20 { decimals: 6 },
        _ => Collateral::Cw20 { decimals: 9 },
    };
    let dec = match collateral {
        Collateral::Native => 6,
        Collateral::Cw20 { decimals } => decimals,
    };
    let d = pow10(dec);
    let feed = if rng.chance(p.feed_real_pct, 100) { FeedKind::Real } else { FeedKind::Mock };
    let n = rng.range(1, p.max_vamms as u64) as usize;
    let mut vamms = vec![];
    let mut first_price = d;
    for i in 0..n {
        let base = rng.log_uniform(100, 1_000_000) * d;
        // price classes: <<1, ~1, >>1
        let (pn, pd): (u128, u128) = *rng.pick(&[(1, 100), (1, 2), (1, 1), (1, 1), (10, 1), (10, 1), (1000, 1)]);
        let quote = (base / pd * pn).max(d);
        if i == 0 {
            first_price = quote * d / base;
        }
        let fee = |rng: &mut Rng| -> u128 {
            if rng.chance(p.fee_pct, 100) {
                *rng.pick(&[1u128, d * 3 / 1000, d / 10, d * 3 / 1000, d / 100])
            } else {
                0
            }
        };
        let toll = fee(rng);
        let spread = fee(rng);
        let fluct = if rng.chance(p.fluct_pct, 100) { *rng.pick(&[d / 100, d / 20, d / 50]) } else { 0 };
        vamms.push(VammCfg {
            quote_reserve: quote,
            base_reserve: base,
            toll,
            spread,
            fluct,
            // mostly the fixtures' hourly / daily periods, but also periods that are not a whole number of hours
            // ... and periods that do not divide a day (7 h, 10 h, 1000 min) or exceed it (2 days)
            funding_period: *rng.pick(&[3600u64, 86400, 3600, 86400, 1800, 5400, 2700, 25200, 36000, 60000, 172800]),
            decimals: None,
            live: true,
            unwired: false,
            foreign_fund: false,
        });
    }
    if rng.chance(p.extra_vamm_pct, 100) && vamms.len() <= 3 {
        let mut extra = vamms[0].clone();
        extra.live = false;
        // deployed the way a third party would list a market of its own: open, wired to the engine, listed by an
        // insurance fund - but not by the engine's
        extra.foreign_fund = rng.chance(p.foreign_fund_pct, 100);
        if rng.chance(p.mismatch_decimals_pct, 100) {
            if dec > 6 && rng.chance(1, 2) {
                // fewer decimals than the engine
                let nd = *rng.pick(&[6u8, dec - 1]);
                let f = pow10(dec - nd);
                extra.decimals = Some(nd);
                extra.quote_reserve = (extra.quote_reserve / f).max(pow10(nd));
                extra.base_reserve = (extra.base_reserve / f).max(pow10(nd));
                extra.toll /= f;
                extra.spread /= f;
                extra.fluct /= f;
            } else {
                extra.decimals = Some(dec + 1);
                extra.quote_reserve *= 10;
                extra.base_reserve *= 10;
                extra.toll *= 10;
                extra.spread *= 10;
                extra.fluct *= 10;
            }
        }
        vamms.push(extra);
    }
    let initial = *rng.pick(&[d / 20, d / 10, d / 5]);
    let maint = *rng.pick(&[initial, initial / 2, initial / 4 * 3, d / 40]);
    let maint = maint.min(initial);
    let liq_fee = if rng.chance(p.zero_liq_fee_pct, 100) { 0 } else { *rng.pick(&[d / 80, d / 40, d / 20, maint / 2]) };
    let partial = *rng.pick(&p.partial_choices) * d / 1_000_000;
    let rich = rng.chance(p.insurance_rich_pct, 100);
    let trader_funds = 10_000_000 * d;
    DeployCfg {
        collateral,
        feed,
        vamms,
        initial_ratio: initial,
        maint_ratio: maint,
        liq_fee,
        partial_ratio: partial,
        trader_funds,
        insurance_funds: if rich { trader_funds * 100 } else { *rng.pick(&[0, d, 1000 * d]) },
        oracle_price: first_price,
        vamm_engine_override: None,
    }
}

pub struct Gen {
    pub rng: Rng,
    pub prof: Profile,
}

fn side_of(buy: bool) -> eng::Side {
    if buy {
        eng::Side::Buy
    } else {
        eng::Side::Sell
    }
}

impl Gen {
    pub fn new(rng: Rng, prof: Profile) -> Gen {
        Gen { rng, prof }
    }

    fn do_step(&mut self, h: &mut History, r: &mut Report, op: Op) -> Rc<Step> {
        // hostile input: a stray coin of a foreign denomination next to the collateral (the engine looks its own
        // denomination up and ignores the rest; on cw20 deployments it ignores attached coins altogether)
        if let Op::Engine { msg: eng::ExecuteMsg::OpenPosition { .. }, sender, .. } = &op {
            if (TRADERS.contains(&sender.as_str()) || sender == "liquidator") && self.rng.chance(self.prof.foreign_coin_pct, 100) {
                let mode = 1 + self.rng.below(2) as u8;
                h.step(Op::ForeignCoin { mode }, r);
            }
        }
        if self.prof.faulted && op.is_engine() {
            // W-FAULT: fail every sub-message once, then run the real execution
            let mut k = 1u32;
            loop {
                let st = h.step_armed(op.clone(), Some(k), r);
                if !st.out.fault_fired || k >= 48 {
                    return st;
                }
                k += 1;
            }
        }
        h.step(op, r)
    }

    pub fn vaddr(h: &History, v: usize) -> String {
        h.w.vamms[v].to_string()
    }

    // ------------------------------------------------------------------------------------
    // sizing helpers

    fn fees_for(h: &History, v: usize, notional: u128) -> u128 {
        let vs = &h.last.vamms[v];
        let dv = vs.decimals;
        if notional == 0 {
            return 0;
        }
        notional * vs.toll / dv + notional * vs.spread / dv
    }

    /// native collateral: how much must be attached to this OpenPosition so the engine accepts it
    pub fn native_open_funds(&mut self, h: &mut History, trader: &str, v: usize, buy: bool, margin: u128, lev: u128) -> u128 {
        if h.w.cw20.is_some() {
            return 0;
        }
        let d = h.w.d;
        let n = match margin.checked_mul(lev) {
            Some(x) => x / d,
            None => return 0,
        };
        let fees = Self::fees_for(h, v, n);
        let pos = h.last.pos(v, trader).cloned();
        let increase = match &pos {
            None => true,
            Some(p) => p.long_dir == buy,
        };
        if increase {
            return n * d / lev.max(1) + fees;
        }
        let p = pos.unwrap();
        let pn = h.w.output_amount(v, p.long_dir, p.size.unsigned_abs()).unwrap_or(0);
        if pn > n {
            return fees;
        }
        // reversal: find the accepted amount by dry-run bisection (error text tells the direction)
        let mut lo: u128 = 0;
        let mut hi: u128 = margin.saturating_add(fees).saturating_add(p.margin).saturating_add(2);
        let va = Self::vaddr(h, v);
        let msg = |m: u128| Op::Engine {
            sender: trader.to_string(),
            msg: eng::ExecuteMsg::OpenPosition {
                vamm: va.clone(),
                side: side_of(buy),
                margin_amount: u(margin),
                leverage: u(lev),
                base_asset_limit: u(0),
            },
            funds: m,
        };
        let mut best = fees;
        for _ in 0..70 {
            if lo > hi {
                break;
            }
            let mid = lo + (hi - lo) / 2;
            let op = msg(mid);
            let cp = h.w.checkpoint();
            let out = apply(&mut h.w, &op, None);
            h.w.restore(cp);
            if out.ok {
                return mid;
            }
            let e = out.err_text();
            if e.contains("insufficient") {
                lo = mid + 1;
                best = lo;
            } else if e.contains("excessive") {
                if mid == 0 {
                    break;
                }
                hi = mid - 1;
            } else {
                // fails for another reason: attach the formula guess
                return best.min(h.last.bal(trader));
            }
        }
        best
    }

    fn pick_trader(&mut self) -> &'static str {
        TRADERS[self.rng.below(4) as usize]
    }

    fn pick_vamm(&mut self, h: &History) -> usize {
        self.rng.below(h.w.vamms.len() as u64) as usize
    }

    pub fn rand_leverage(&mut self, h: &History) -> u128 {
        let d = h.w.d;
        let init = h.last.eng.initial.max(1);
        let maxl = d * d / init;
        match self.rng.below(10) {
            0 => d,
            1 => maxl,
            2 => maxl + 1,
            3 => d - 1,
            4 => self.rng.u128_range(d, maxl.max(d)),
            5 => 2 * d,
            6 => 5 * d,
            7 => maxl.saturating_sub(1).max(d),
            8 => (maxl / 2).max(d) + self.rng.u128_below(1000),
            _ => (10 * d).min(maxl).max(d),
        }
    }

    /// open with chosen notional fraction of the quote reserve
    pub fn open(&mut self, h: &mut History, r: &mut Report, trader: &str, v: usize, buy: bool, margin: u128, lev: u128, limit: u128) -> Rc<Step> {
        let funds = self.native_open_funds(h, trader, v, buy, margin, lev);
        let op = Op::Engine {
            sender: trader.to_string(),
            msg: eng::ExecuteMsg::OpenPosition {
                vamm: Self::vaddr(h, v),
                side: side_of(buy),
                margin_amount: u(margin),
                leverage: u(lev),
                base_asset_limit: u(limit),
            },
            funds,
        };
        self.do_step(h, r, op)
    }

    pub fn rand_open(&mut self, h: &mut History, r: &mut Report) -> Rc<Step> {
        let t = self.pick_trader();
        let v = self.pick_vamm(h);
        let d = h.w.d;
        let q = h.last.vamms[v].q;
        let lev = self.rand_leverage(h);
        // notional: dust .. 25% of the quote reserve, log-uniform
        let n = match self.rng.below(12) {
            0 => self.rng.u128_range(1, 50),
            1 => q / 2,
            _ => self.rng.log_uniform(1, (q / 4).max(2)),
        };
        let margin = (n * d / lev.max(1)).max(if self.rng.chance(1, 30) { 0 } else { 1 });
        let buy = self.rng.chance(1, 2);
        let limit = if self.rng.chance(1, 6) {
            // limit around the quote
            let nn = margin.saturating_mul(lev) / d;
            let qte = h.w.input_amount(v, buy, nn).unwrap_or(0);
            match self.rng.below(3) {
                0 => qte.saturating_sub(1),
                1 => qte,
                _ => qte + 1,
            }
        } else {
            0
        };
        self.open(h, r, t, v, buy, margin, lev, limit)
    }

    pub fn close(&mut self, h: &mut History, r: &mut Report, trader: &str, v: usize, limit: u128) -> Rc<Step> {
        let op = Op::Engine {
            sender: trader.to_string(),
            msg: eng::ExecuteMsg::ClosePosition { vamm: Self::vaddr(h, v), quote_asset_limit: u(limit) },
            funds: 0,
        };
        self.do_step(h, r, op)
    }

    pub fn rand_close(&mut self, h: &mut History, r: &mut Report) -> Rc<Step> {
        // prefer an existing position
        let (t, v) = if !h.last.pos.is_empty() && self.rng.chance(9, 10) {
            let p = &h.last.pos[self.rng.below(h.last.pos.len() as u64) as usize];
            (p.trader.clone(), p.vamm)
        } else {
            (self.pick_trader().to_string(), self.pick_vamm(h))
        };
        let limit = if self.rng.chance(1, 5) {
            if let Some(p) = h.last.pos(v, &t) {
                let qte = h.w.output_amount(v, p.long_dir, p.size.unsigned_abs()).unwrap_or(0);
                match self.rng.below(3) {
                    0 => qte.saturating_sub(1),
                    1 => qte,
                    _ => qte + 1,
                }
            } else {
                0
            }
        } else {
            0
        };
        self.close(h, r, &t, v, limit)
    }

    pub fn deposit(&mut self, h: &mut History, r: &mut Report, trader: &str, v: usize, amount: u128) -> Rc<Step> {
        let mut funds = if h.w.cw20.is_some() { 0 } else { amount };
        if h.w.cw20.is_none() && self.rng.chance(1, 6) {
            // native collateral: attached coins that do not match the declared amount must be refused
            funds = match self.rng.below(4) {
                0 => amount + 1,
                1 => amount.saturating_mul(2) + self.rng.u128_below(1000),
                2 => amount.saturating_sub(1),
                _ => amount / 2,
            };
        }
        let op = Op::Engine {
            sender: trader.to_string(),
            msg: eng::ExecuteMsg::DepositMargin { vamm: Self::vaddr(h, v), amount: u(amount) },
            funds,
        };
        self.do_step(h, r, op)
    }

    /// coins attached to a call that does not need any (native collateral only)
    fn stray_funds(&mut self, h: &History, sender: &str) -> u128 {
        if h.w.cw20.is_some() || !self.rng.chance(self.prof.stray_funds_pct, 100) {
            return 0;
        }
        let bal = h.last.bal(sender);
        self.rng.log_uniform(1, (100 * h.w.d).max(2)).min(bal)
    }

    pub fn withdraw(&mut self, h: &mut History, r: &mut Report, trader: &str, v: usize, amount: u128) -> Rc<Step> {
        let funds = self.stray_funds(h, trader);
        let op = Op::Engine {
            sender: trader.to_string(),
            msg: eng::ExecuteMsg::WithdrawMargin { vamm: Self::vaddr(h, v), amount: u(amount) },
            funds,
        };
        self.do_step(h, r, op)
    }

    fn rand_pos(&mut self, h: &History) -> Option<(String, usize)> {
        if h.last.pos.is_empty() {
            return None;
        }
        let p = &h.last.pos[self.rng.below(h.last.pos.len() as u64) as usize];
        Some((p.trader.clone(), p.vamm))
    }

    pub fn rand_deposit(&mut self, h: &mut History, r: &mut Report) -> Rc<Step> {
        let (t, v) = match self.rand_pos(h) {
            Some(x) if self.rng.chance(9, 10) => x,
            _ => (self.pick_trader().to_string(), self.pick_vamm(h)),
        };
        let d = h.w.d;
        let amount = match self.rng.below(8) {
            0 => 0,
            1 => 1,
            _ => self.rng.log_uniform(1, 1000 * d),
        };
        self.deposit(h, r, &t, v, amount)
    }

    pub fn rand_withdraw(&mut self, h: &mut History, r: &mut Report) -> Rc<Step> {
        let (t, v) = match self.rand_pos(h) {
            Some(x) if self.rng.chance(9, 10) => x,
            _ => (self.pick_trader().to_string(), self.pick_vamm(h)),
        };
        let fc = h.w.free_collateral(v, &t).unwrap_or(0);
        let margin = h.last.pos(v, &t).map(|p| p.margin).unwrap_or(0);
        let amount = match self.rng.below(8) {
            0 if fc > 0 => fc as u128,
            1 if fc > 0 => fc as u128 + 1,
            2 if fc > 1 => fc as u128 - 1,
            3 => margin,
            4 => margin + 1,
            5 => 1,
            _ => self.rng.log_uniform(1, margin.max(2)),
        };
        self.withdraw(h, r, &t, v, amount)
    }

    pub fn liquidate(&mut self, h: &mut History, r: &mut Report, caller: &str, v: usize, trader: &str, limit: u128) -> Rc<Step> {
        let funds = self.stray_funds(h, caller);
        let op = Op::Engine {
            sender: caller.to_string(),
            msg: eng::ExecuteMsg::Liquidate { vamm: Self::vaddr(h, v), trader: trader.to_string(), quote_asset_limit: u(limit) },
            funds,
        };
        self.do_step(h, r, op)
    }

    pub fn rand_liquidate(&mut self, h: &mut History, r: &mut Report) -> Rc<Step> {
        // 70%: the position with the lowest engine-reported ratio; else random target
        let mut target: Option<(String, usize)> = None;
        if self.rng.chance(7, 10) {
            let mut best: Option<(i128, String, usize)> = None;
            for p in h.last.pos.iter() {
                if let Ok(mr) = h.w.margin_ratio(p.vamm, &p.trader) {
                    if best.as_ref().map(|b| mr < b.0).unwrap_or(true) {
                        best = Some((mr, p.trader.clone(), p.vamm));
                    }
                }
            }
            target = best.map(|b| (b.1, b.2));
        }
        let (t, v) = target.or_else(|| self.rand_pos(h)).unwrap_or_else(|| (self.pick_trader().to_string(), 0));
        let caller = match self.rng.below(6) {
            0 => t.clone(),
            1 => "stranger".to_string(),
            2 => self.pick_trader().to_string(),
            _ => "liquidator".to_string(),
        };
        self.liquidate(h, r, &caller, v, &t, 0)
    }

    pub fn pay_funding(&mut self, h: &mut History, r: &mut Report, caller: &str, v: usize) -> Rc<Step> {
        let funds = self.stray_funds(h, caller);
        let op = Op::Engine { sender: caller.to_string(), msg: eng::ExecuteMsg::PayFunding { vamm: Self::vaddr(h, v) }, funds };
        self.do_step(h, r, op)
    }

    pub fn advance(&mut self, h: &mut History, r: &mut Report, blocks: u64, secs: u64) -> Rc<Step> {
        // real block times carry arbitrary sub-second parts
        let nanos = if self.rng.chance(self.prof.subsecond_pct, 100) { self.rng.below(1_000_000_000) } else { 0 };
        h.step(Op::Advance { blocks, secs, nanos }, r)
    }

    pub fn rand_advance(&mut self, h: &mut History, r: &mut Report) -> Rc<Step> {
        let (b, s) = match self.rng.below(10) {
            0 => (1, 0),
            1 => (1, 1),
            2 => (10, 60),
            3 => (100, 900),
            4 => (1, 901),
            5 => (200, 3600),
            6 => (1000, 86400),
            7 => (3000, 3 * 86400),
            _ => (1, self.rng.range(1, 30)),
        };
        self.advance(h, r, b, s)
    }

    pub fn oracle(&mut self, h: &mut History, r: &mut Report, price: u128) -> Rc<Step> {
        h.step(Op::Oracle { price: price.max(1), back: 0 }, r)
    }

    pub fn rand_oracle(&mut self, h: &mut History, r: &mut Report) -> Rc<Step> {
        let v = self.pick_vamm(h);
        let spot = h.last.vamms[v].spot.max(1);
        let cur = h.w.oracle_price(v).unwrap_or(spot).max(1);
        let price = match self.rng.below(8) {
            0 => spot,
            1 => spot * 111 / 100,          // just over the 10% spread limit
            2 => spot * 100 / 111,
            3 => spot * 109 / 100,          // just under
            4 => spot * 10 / 11 + 1,
            5 => cur * self.rng.u128_range(90, 110) / 100,
            6 => spot * self.rng.u128_range(50, 200) / 100,
            _ => cur * self.rng.u128_range(98, 102) / 100,
        };
        self.oracle(h, r, price)
    }

    // ------------------------------------------------------------------------------------
    // admin noise

    pub fn eng_cfg(&mut self, h: &mut History, r: &mut Report, sender: &str, initial: Option<u128>, maint: Option<u128>, partial: Option<u128>, liq: Option<u128>) -> Rc<Step> {
        let op = Op::Engine {
            sender: sender.to_string(),
            msg: eng::ExecuteMsg::UpdateConfig {
                owner: None,
                insurance_fund: None,
                fee_pool: None,
                initial_margin_ratio: initial.map(u),
                maintenance_margin_ratio: maint.map(u),
                partial_liquidation_ratio: partial.map(u),
                liquidation_fee: liq.map(u),
            },
            funds: 0,
        };
        h.step(op, r)
    }

    pub fn vamm_cfg(&mut self, h: &mut History, r: &mut Report, v: usize, f: impl FnOnce(&mut VCfg)) -> Rc<Step> {
        let mut c = VCfg::default();
        f(&mut c);
        let owner = h.last.vamms[v].owner.clone();
        let op = Op::Vamm {
            sender: owner,
            vamm: v,
            msg: vm::ExecuteMsg::UpdateConfig {
                base_asset_holding_cap: c.holding_cap.map(u),
                open_interest_notional_cap: c.oi_cap.map(u),
                toll_ratio: c.toll.map(u),
                spread_ratio: c.spread.map(u),
                fluctuation_limit_ratio: c.fluct.map(u),
                margin_engine: None,
                insurance_fund: None,
                pricefeed: None,
                spot_price_twap_interval: c.twap_interval,
            },
        };
        h.step(op, r)
    }

    pub fn rand_admin(&mut self, h: &mut History, r: &mut Report) -> Rc<Step> {
        let d = h.w.d;
        let v = self.pick_vamm(h);
        match self.rng.below(14) {
            0 => {
                let paused = h.last.eng.paused;
                let pauser = h.last.eng.pauser.clone();
                h.step(Op::Engine { sender: pauser, msg: eng::ExecuteMsg::SetPause { pause: !paused }, funds: 0 }, r)
            }
            1 => {
                let open = h.last.vamms[v].open;
                let sender = if self.rng.chance(1, 2) { h.last.vamms[v].owner.clone() } else { h.w.insurance.to_string() };
                // the insurance fund cannot originate a transaction; use the owner unless it is a shutdown
                let sender = if sender == h.w.insurance.to_string() { h.last.vamms[v].owner.clone() } else { sender };
                h.step(Op::Vamm { sender, vamm: v, msg: vm::ExecuteMsg::SetOpen { open: !open } }, r)
            }
            2 => {
                let mut reg = h.last.vamms[v].registered;
                if self.rng.chance(self.prof.bad_registry_pct, 100) {
                    // re-add a registered vAMM / remove an absent one: must be refused
                    reg = !reg;
                }
                let owner = h.last.ins_owner.clone();
                let msg = if reg { ins::ExecuteMsg::RemoveVamm { vamm: Self::vaddr(h, v) } } else { ins::ExecuteMsg::AddVamm { vamm: Self::vaddr(h, v) } };
                h.step(Op::Insurance { sender: owner, msg }, r)
            }
            3 => {
                let val = *self.rng.pick(&[0, d / 40, d / 20, d / 10, d / 5, d, d + 1]);
                let o = h.last.eng.owner.clone();
                self.eng_cfg(h, r, &o, Some(val), None, None, None)
            }
            4 => {
                let val = *self.rng.pick(&[0, d / 40, d / 20, d / 10, d / 5, d, d + 1]);
                let o = h.last.eng.owner.clone();
                self.eng_cfg(h, r, &o, None, Some(val), None, None)
            }
            5 => {
                let val = *self.rng.pick(&[0, d / 4, d / 2, d * 95 / 100, d, d + 1]);
                let o = h.last.eng.owner.clone();
                self.eng_cfg(h, r, &o, None, None, Some(val), None)
            }
            6 => {
                let val = *self.rng.pick(&[0, d / 80, d / 40, d / 20, d, d + 1]);
                let o = h.last.eng.owner.clone();
                self.eng_cfg(h, r, &o, None, None, None, Some(val))
            }
            7 => {
                let val = *self.rng.pick(&[0u128, 1, d * 3 / 1000, d / 10, d, d + 1]);
                let toll = self.rng.chance(1, 2);
                self.vamm_cfg(h, r, v, |c| if toll { c.toll = Some(val) } else { c.spread = Some(val) })
            }
            8 => {
                let val = *self.rng.pick(&[0u128, d / 100, d / 20, d, d + 1]);
                self.vamm_cfg(h, r, v, |c| c.fluct = Some(val))
            }
            9 => {
                let q = h.last.vamms[v].q;
                let b = h.last.vamms[v].b;
                let oi = *self.rng.pick(&[0u128, q / 100, q / 10, q]);
                let hc = *self.rng.pick(&[0u128, b / 1000, b / 100, b / 10]);
                let which = self.rng.below(3);
                self.vamm_cfg(h, r, v, |c| {
                    if which != 1 {
                        c.oi_cap = Some(oi)
                    }
                    if which != 0 {
                        c.holding_cap = Some(hc)
                    }
                })
            }
            10 => {
                let t = self.pick_trader().to_string();
                let pauser = h.last.eng.pauser.clone();
                let msg = if h.last.eng.whitelist.contains(&t) { eng::ExecuteMsg::RemoveWhitelist { address: t } } else { eng::ExecuteMsg::AddWhitelist { address: t } };
                h.step(Op::Engine { sender: pauser, msg, funds: 0 }, r)
            }
            11 if self.rng.chance(1, 3) => {
                // re-point the vAMM's insurance fund (its shutdown authority) to a plain account and back:
                // the engine's own insurance fund must keep receiving what the engine owes it
                let cur = h.last.vamms[v].cfg_insurance.clone();
                let next = if cur == h.w.insurance.to_string() { "guardian".to_string() } else { h.w.insurance.to_string() };
                let owner = h.last.vamms[v].owner.clone();
                h.step(
                    Op::Vamm {
                        sender: owner,
                        vamm: v,
                        msg: vm::ExecuteMsg::UpdateConfig {
                            base_asset_holding_cap: None,
                            open_interest_notional_cap: None,
                            toll_ratio: None,
                            spread_ratio: None,
                            fluctuation_limit_ratio: None,
                            margin_engine: None,
                            insurance_fund: Some(next),
                            pricefeed: None,
                            spot_price_twap_interval: None,
                        },
                    },
                    r,
                )
            }
            11 => {
                let val = *self.rng.pick(&[59u64, 60, 900, 3600, 604_800, 604_801]);
                self.vamm_cfg(h, r, v, |c| c.twap_interval = Some(val))
            }
            13 if self.rng.chance(1, 4) => {
                // the engine's insurance fund named in ONE message together with the (unchanged) owner, and named back in the
                // very next transaction: every field an accepted update names takes effect, whatever else the message carries
                let o = h.last.eng.owner.clone();
                let cur = h.last.eng.insurance_fund.clone();
                let other = h.w.insurance2.as_ref().map(|a| a.to_string()).unwrap_or_else(|| "guardian".to_string());
                let with_owner = self.rng.chance(2, 3);
                let upd = |owner: Option<String>, fund: String| eng::ExecuteMsg::UpdateConfig {
                    owner,
                    insurance_fund: Some(fund),
                    fee_pool: None,
                    initial_margin_ratio: None,
                    maintenance_margin_ratio: None,
                    partial_liquidation_ratio: None,
                    liquidation_fee: None,
                };
                h.step(Op::Engine { sender: o.clone(), msg: upd(if with_owner { Some(o.clone()) } else { None }, other), funds: 0 }, r);
                h.step(Op::Engine { sender: o.clone(), msg: upd(None, cur), funds: 0 }, r)
            }
            13 if self.rng.chance(1, 2) => {
                // re-point the fee pool (contract <-> plain account): fees must follow the configuration
                let cur = h.last.eng.fee_pool.clone();
                let mut next = if cur == h.w.fee_pool.to_string() { "feepool2".to_string() } else { h.w.fee_pool.to_string() };
                // one time in five the address is not in normal form (upper case, too short, too long): the
                // engine validates addresses and must refuse the update
                if self.rng.chance(self.prof.malformed_addr_pct, 100) {
                    next = self.rng.pick(&["FEE_COLLECTOR", "FeePool2", "fp", "a_fee_pool_address_that_is_much_longer_than_any_address_the_chain_would_accept"]).to_string();
                }
                let o = h.last.eng.owner.clone();
                h.step(
                    Op::Engine {
                        sender: o,
                        // half of these updates also restate the (unchanged) insurance fund and a ratio: several fields in one message
                        msg: eng::ExecuteMsg::UpdateConfig {
                            owner: None,
                            insurance_fund: if self.rng.chance(1, 2) { Some(h.last.eng.insurance_fund.clone()) } else { None },
                            fee_pool: Some(next),
                            initial_margin_ratio: None,
                            maintenance_margin_ratio: None,
                            partial_liquidation_ratio: None,
                            liquidation_fee: if self.rng.chance(1, 2) { Some(u(h.last.eng.liq_fee)) } else { None },
                        },
                        funds: 0,
                    },
                    r,
                )
            }
            12 => {
                // combined engine update with crossing values
                let a = *self.rng.pick(&[d / 40, d / 20, d / 10, d / 5]);
                let b = *self.rng.pick(&[d / 40, d / 20, d / 10, d / 5]);
                let o = h.last.eng.owner.clone();
                self.eng_cfg(h, r, &o, Some(a), Some(b), None, None)
            }
            _ => {
                let owner = h.last.ins_owner.clone();
                if self.rng.chance(self.prof.shutdown_pct, 100) {
                    h.step(Op::Insurance { sender: owner, msg: ins::ExecuteMsg::ShutdownVamms {} }, r)
                } else {
                    let paused = h.last.eng.paused;
                    let pauser = h.last.eng.pauser.clone();
                    h.step(Op::Engine { sender: pauser, msg: eng::ExecuteMsg::SetPause { pause: !paused }, funds: 0 }, r)
                }
            }
        }
    }

    pub fn rand_donate(&mut self, h: &mut History, r: &mut Report) -> Rc<Step> {
        let d = h.w.d;
        let to = match self.rng.below(3) {
            0 => h.w.engine.to_string(),
            1 => h.w.insurance.to_string(),
            _ => self.pick_trader().to_string(),
        };
        let amount = self.rng.log_uniform(1, 100_000 * d);
        h.step(Op::Send { from: "bank".into(), to, amount }, r)
    }

    pub fn rand_allowance(&mut self, h: &mut History, r: &mut Report) -> Rc<Step> {
        let t = self.pick_trader().to_string();
        let amount = if self.rng.chance(1, 2) { 0 } else { u128::MAX / 4 };
        h.step(Op::Allowance { owner: t, amount }, r)
    }

    /// undo pause / closed / unregistered states so that histories do not stay vacuous for long
    pub fn heal(&mut self, h: &mut History, r: &mut Report) {
        if h.last.eng.paused {
            let pauser = h.last.eng.pauser.clone();
            h.step(Op::Engine { sender: pauser, msg: eng::ExecuteMsg::SetPause { pause: false }, funds: 0 }, r);
            return;
        }
        for v in 0..h.w.vamms.len() {
            if !h.w.cfg.vamms[v].live {
                continue;
            }
            if !h.last.vamms[v].open {
                let owner = h.last.vamms[v].owner.clone();
                h.step(Op::Vamm { sender: owner, vamm: v, msg: vm::ExecuteMsg::SetOpen { open: true } }, r);
                return;
            }
            if !h.last.vamms[v].registered {
                let owner = h.last.ins_owner.clone();
                h.step(Op::Insurance { sender: owner, msg: ins::ExecuteMsg::AddVamm { vamm: Self::vaddr(h, v) } }, r);
                return;
            }
        }
    }

    /// Hostile input: position records are keyed by hash(vamm ++ trader) without a separator, so the
    /// pair (vamm ++ prefix-of-victim, rest-of-victim) aliases the victim's record. An attacker account
    /// named like the tail of a victim's address sends engine messages naming the crafted vAMM string.
    /// Two accounts with long addresses that differ only in their last character: one holds a position, the other
    /// sends the ordinary operations for itself on the same vAMM (a position key that looks at a prefix of the address,
    /// or at a digest of it, would make them share a record).
    pub fn long_twin_attack(&mut self, h: &mut History, r: &mut Report) -> Rc<Step> {
        let d = h.w.d;
        let (a, b) = (LONG_TWINS[0], LONG_TWINS[1]);
        let v = self.pick_vamm(h);
        for t in [a, b] {
            if h.last.bal(t) < 100 * d {
                h.step(Op::Send { from: "bank".into(), to: t.into(), amount: 10_000 * d }, r);
                if h.w.cw20.is_some() {
                    h.step(Op::Allowance { owner: t.into(), amount: u128::MAX / 4 }, r);
                }
            }
        }
        if h.last.pos(v, a).map(|p| p.size == 0).unwrap_or(true) {
            let buy = self.rng.chance(1, 2);
            let m = self.rng.log_uniform(d, 50 * d);
            return self.open(h, r, a, v, buy, m, 2 * d, 0);
        }
        let va = Self::vaddr(h, v);
        let msg = match self.rng.below(5) {
            0 | 1 => eng::ExecuteMsg::ClosePosition { vamm: va, quote_asset_limit: u(0) },
            2 => eng::ExecuteMsg::WithdrawMargin { vamm: va, amount: u(self.rng.log_uniform(1, 10 * d)) },
            3 => eng::ExecuteMsg::DepositMargin { vamm: va, amount: u(self.rng.log_uniform(1, 5 * d)) },
            _ => eng::ExecuteMsg::OpenPosition { vamm: va, side: side_of(self.rng.chance(1, 2)), margin_amount: u(d), leverage: u(d), base_asset_limit: u(0) },
        };
        let funds = match &msg {
            eng::ExecuteMsg::DepositMargin { amount, .. } if h.w.cw20.is_none() => amount.u128(),
            eng::ExecuteMsg::OpenPosition { .. } if h.w.cw20.is_none() => d,
            _ => 0,
        };
        self.do_step(h, r, Op::Engine { sender: b.to_string(), msg, funds })
    }

    pub fn rand_alias_attack(&mut self, h: &mut History, r: &mut Report) -> Rc<Step> {
        if self.rng.chance(1, 5) {
            return self.long_twin_attack(h, r);
        }
        let Some((victim, v)) = self.rand_pos(h) else { return self.rand_advance(h, r) };
        // (attackers are named like the tail of an ordinary trader's address; only those accounts are tracked)
        if victim.len() < 4 || !TRADERS.contains(&victim.as_str()) {
            return self.rand_advance(h, r);
        }
        // keep the attacker's name at least 3 characters long (shorter addresses cannot hold balances)
        let k = self.rng.range(1, victim.len() as u64 - 3) as usize;
        let mut fake_vamm = format!("{}{}", Self::vaddr(h, v), &victim[..k]);
        let mut attacker = victim[k..].to_string();
        // one time in four the attacker is the account whose address differs from the victim's only in letter case,
        // and it names the real vAMM
        if self.rng.chance(1, 4) && TRADERS.contains(&victim.as_str()) {
            fake_vamm = Self::vaddr(h, v);
            attacker = case_variant(&victim);
        }
        let d = h.w.d;
        let msg = match self.rng.below(6) {
            0 | 1 => eng::ExecuteMsg::ClosePosition { vamm: fake_vamm, quote_asset_limit: u(0) },
            2 => eng::ExecuteMsg::WithdrawMargin { vamm: fake_vamm, amount: u(self.rng.log_uniform(1, 100 * d)) },
            3 => eng::ExecuteMsg::DepositMargin { vamm: fake_vamm, amount: u(1) },
            4 => eng::ExecuteMsg::OpenPosition { vamm: fake_vamm, side: side_of(self.rng.chance(1, 2)), margin_amount: u(d), leverage: u(d), base_asset_limit: u(0) },
            _ => eng::ExecuteMsg::Liquidate { vamm: fake_vamm, trader: attacker.clone(), quote_asset_limit: u(0) },
        };
        // the attacker is a real account: give it collateral and (cw20) an allowance so that nothing but
        // the engine's own checks stands in its way
        // (neither the token nor the bank module accepts an address that is not in normal form, so a case-variant account
        // holds nothing; ClosePosition and WithdrawMargin need no funds)
        let normal_form = attacker.chars().all(|c| !c.is_ascii_uppercase());
        if h.last.bal(&attacker) < 10 * d && normal_form {
            h.step(Op::Send { from: "bank".into(), to: attacker.clone(), amount: 1000 * d }, r);
            if h.w.cw20.is_some() {
                h.step(Op::Allowance { owner: attacker.clone(), amount: u128::MAX / 4 }, r);
            }
        }
        let msg = match msg {
            eng::ExecuteMsg::DepositMargin { vamm, .. } => eng::ExecuteMsg::DepositMargin { vamm, amount: u(self.rng.log_uniform(1, 5 * d)) },
            m => m,
        };
        let funds = match &msg {
            eng::ExecuteMsg::DepositMargin { amount, .. } if h.w.cw20.is_none() => amount.u128(),
            eng::ExecuteMsg::OpenPosition { .. } if h.w.cw20.is_none() => d,
            _ => 0,
        };
        let sender = if matches!(msg, eng::ExecuteMsg::Liquidate { .. }) { "stranger".to_string() } else { attacker };
        let op = Op::Engine { sender, msg, funds };
        self.do_step(h, r, op)
    }

    /// Hostile input: an account that is not the margin engine calls the vAMM's engine-only entry points directly.
    pub fn rand_forged_vamm_call(&mut self, h: &mut History, r: &mut Report) -> Rc<Step> {
        let v = self.pick_vamm(h);
        let vs = h.last.vamms[v].clone();
        let sender = match self.rng.below(5) {
            0 => "stranger".to_string(),
            1 => self.pick_trader().to_string(),
            2 => vs.owner.clone(),
            3 => h.w.insurance.to_string(),
            _ => "liquidator".to_string(),
        };
        let add = self.rng.chance(1, 2);
        let msg = match self.rng.below(5) {
            0 | 1 => vm::ExecuteMsg::SwapOutput { direction: dir(add), base_asset_amount: u(self.rng.log_uniform(1, (vs.b / 20).max(2))), quote_asset_limit: u(0) },
            2 | 3 => vm::ExecuteMsg::SwapInput { direction: dir(add), quote_asset_amount: u(self.rng.log_uniform(1, (vs.q / 20).max(2))), base_asset_limit: u(0), can_go_over_fluctuation: self.rng.chance(1, 2) },
            _ => vm::ExecuteMsg::SettleFunding {},
        };
        h.step(Op::Vamm { sender, vamm: v, msg }, r)
    }

    /// Hostile input: accounts that are not the margin engine ask the insurance fund for its collateral directly
    /// (its owner, the engine's owner, traders, strangers). The fund pays the engine only, on the engine's request.
    pub fn rand_forged_insurance_withdraw(&mut self, h: &mut History, r: &mut Report) -> Rc<Step> {
        let token = match &h.w.cw20 {
            None => margined_common::asset::AssetInfo::NativeToken { denom: DENOM.into() },
            Some(a) => margined_common::asset::AssetInfo::Token { contract_addr: a.clone() },
        };
        let sender = match self.rng.below(6) {
            0 | 1 => h.last.ins_owner.clone(),
            2 => h.last.eng.owner.clone(),
            3 => self.pick_trader().to_string(),
            4 => "liquidator".to_string(),
            _ => "stranger".to_string(),
        };
        let bal = h.last.bal(h.w.insurance.as_str());
        let amount = match self.rng.below(4) {
            0 => 1,
            1 => bal,
            _ => self.rng.log_uniform(1, bal.max(2)),
        };
        h.step(Op::Insurance { sender, msg: ins::ExecuteMsg::Withdraw { token, amount: u(amount) } }, r)
    }

    /// Hostile input: a Liquidate naming a trader / vAMM with surrounding whitespace must not be resolved
    /// to the un-padded account.
    pub fn rand_padded_liquidate(&mut self, h: &mut History, r: &mut Report) -> Rc<Step> {
        let Some((victim, v)) = self.rand_pos(h) else { return self.rand_advance(h, r) };
        let pad = |s: &str, k: u64| match k {
            0 => format!("{} ", s),
            1 => format!(" {}", s),
            _ => format!(" {} ", s),
        };
        let k = self.rng.below(3);
        let (vamm, trader) = match self.rng.below(3) {
            0 => (Self::vaddr(h, v), pad(&victim, k)),
            1 => (pad(&Self::vaddr(h, v), k), victim.clone()),
            _ => (pad(&Self::vaddr(h, v), k), pad(&victim, k)),
        };
        let op = Op::Engine { sender: "liquidator".into(), msg: eng::ExecuteMsg::Liquidate { vamm, trader, quote_asset_limit: u(0) }, funds: 0 };
        self.do_step(h, r, op)
    }

    pub fn rand_op(&mut self, h: &mut History, r: &mut Report) -> Rc<Step> {
        if self.rng.chance(self.prof.alias_pct, 1000) {
            return match self.rng.below(5) {
                0 => self.rand_forged_vamm_call(h, r),
                1 => self.rand_padded_liquidate(h, r),
                2 => self.rand_forged_insurance_withdraw(h, r),
                _ => self.rand_alias_attack(h, r),
            };
        }
        if self.rng.chance(self.prof.heal_pct, 100) {
            self.heal(h, r);
        }
        let ws = self.prof.w_ops;
        match self.rng.weighted(&ws) {
            0 => self.rand_open(h, r),
            1 => self.rand_close(h, r),
            2 => self.rand_deposit(h, r),
            3 => self.rand_withdraw(h, r),
            4 => self.rand_liquidate(h, r),
            5 => {
                let v = self.pick_vamm(h);
                let c = *self.rng.pick(&["liquidator", "stranger", "alice", "owner"]);
                // sometimes jump to the funding time first
                if self.rng.chance(1, 2) {
                    let nft = h.last.vamms[v].next_funding_time;
                    let now = h.last.time;
                    if nft > now {
                        let delta = nft - now;
                        let s = match self.rng.below(4) {
                            0 => delta.saturating_sub(1),
                            1 => delta,
                            2 => delta + 1,
                            _ => delta + self.rng.range(0, 7200),
                        };
                        self.advance(h, r, (s / 6).max(1), s);
                    }
                }
                self.pay_funding(h, r, c, v)
            }
            6 => self.rand_oracle(h, r),
            7 => self.rand_advance(h, r),
            8 => self.rand_admin(h, r),
            9 => self.rand_donate(h, r),
            _ => self.rand_allowance(h, r),
        }
    }

    // ------------------------------------------------------------------------------------
    // directed macros

    /// make sure `trader` holds a position on `v`; returns false if it could not be opened
    pub fn ensure_position(&mut self, h: &mut History, r: &mut Report, trader: &str, v: usize, buy: bool, frac_ppm: u128, lev: u128) -> bool {
        if h.last.pos(v, trader).map(|p| p.size != 0).unwrap_or(false) {
            return true;
        }
        let d = h.w.d;
        let q = h.last.vamms[v].q;
        let n = (q * frac_ppm / 1_000_000).max(10);
        let margin = (n * d / lev).max(1);
        let st = self.open(h, r, trader, v, buy, margin, lev, 0);
        st.out.ok
    }

    /// whale moves the price of vamm `v` by roughly `pct_ppm` (up if `up`)
    pub fn move_price(&mut self, h: &mut History, r: &mut Report, v: usize, up: bool, pct_ppm: u128) -> bool {
        let d = h.w.d;
        let q = h.last.vamms[v].q;
        // dq/q ~ pct/2 for small moves on a constant-product curve
        let n = (q * pct_ppm / 2_000_000).max(1);
        let lev = d;
        let st = self.open(h, r, "whale", v, up, n, lev, 0);
        st.out.ok
    }

    /// `who` moves the price of vamm `v` by roughly `pct_ppm` (up if `up`)
    pub fn move_price_by(&mut self, h: &mut History, r: &mut Report, who: &str, v: usize, up: bool, pct_ppm: u128) -> bool {
        let d = h.w.d;
        let q = h.last.vamms[v].q;
        let n = (q * pct_ppm / 2_000_000).max(1);
        let init = h.last.eng.initial.max(1);
        let lev = (d * d / init).max(d);
        let st = self.open(h, r, who, v, up, (n * d / lev).max(1), lev, 0);
        st.out.ok
    }

    /// push `victim`'s engine-reported margin ratio on `v` down to <= target; true when reached
    pub fn push_underwater(&mut self, h: &mut History, r: &mut Report, victim: &str, v: usize, target: i128, max_iter: usize) -> bool {
        for _ in 0..max_iter {
            let Some(p) = h.last.pos(v, victim).cloned() else { return false };
            if p.size == 0 {
                return false;
            }
            let mr = match h.w.margin_ratio(v, victim) {
                Ok(x) => x,
                Err(_) => return false,
            };
            if mr <= target {
                return true;
            }
            // distance to go decides the step
            let gap = (mr - target) as u128;
            let d = h.w.d;
            let pct = (gap * 1_000_000 / d).clamp(2_000, 80_000);
            let fl = h.last.vamms[v].fluct;
            let pct = if fl > 0 { pct.min(fl * 1_000_000 / d * 8 / 10).max(500) } else { pct };
            // victim long -> price must fall
            let ok = self.move_price(h, r, v, !p.long_dir, pct);
            // let the TWAP follow: the ratio uses the less extreme of spot and 15-minute TWAP
            self.advance(h, r, 40, 910);
            if !ok && fl == 0 {
                return false;
            }
        }
        h.w.margin_ratio(v, victim).map(|m| m <= target).unwrap_or(false)
    }

    pub fn macro_underwater(&mut self, h: &mut History, r: &mut Report) {
        let v = self.pick_vamm(h);
        if !h.last.vamms[v].open || !h.last.vamms[v].registered || h.last.eng.paused {
            return;
        }
        let victim = self.pick_trader();
        let d = h.w.d;
        let buy = self.rng.chance(1, 2);
        let init = h.last.eng.initial.max(1);
        let lev = (d * d / init).max(d);
        let frac = *self.rng.pick(&[100u128, 1_000, 10_000, 30_000]);
        if !self.ensure_position(h, r, victim, v, buy, frac, lev) {
            return;
        }
        let maint = h.last.eng.maint as i128;
        let liq_fee = h.last.eng.liq_fee as i128;
        // target band: (liq_fee, maint], [0, liq_fee], deeply negative
        let target = match self.rng.below(4) {
            0 => maint,
            1 => (liq_fee + maint) / 2,
            2 => liq_fee / 2,
            _ => -(d as i128) / (self.rng.range(2, 20) as i128),
        };
        let reached = self.push_underwater(h, r, victim, v, target, 14);
        if !reached {
            return;
        }
        // sometimes hit the boundary exactly by moving the maintenance ratio onto the observed ratio
        if self.rng.chance(1, 3) {
            if let Ok(mr) = h.w.margin_ratio(v, victim) {
                if mr >= 0 && (mr as u128) <= h.last.eng.initial {
                    let delta = self.rng.below(3) as i128 - 1; // -1, 0, +1
                    let newm = (mr + delta).max(0) as u128;
                    let o = h.last.eng.owner.clone();
                    self.eng_cfg(h, r, &o, None, Some(newm), None, None);
                }
            }
        }
        if self.rng.chance(1, 4) {
            // oracle divergence on either side of the 10% threshold
            let spot = h.last.vamms[v].spot;
            let p = *self.rng.pick(&[spot * 112 / 100, spot * 100 / 112, spot * 108 / 100, spot * 130 / 100, spot * 70 / 100]);
            self.oracle(h, r, p);
        }
        let caller = *self.rng.pick(&["liquidator", "liquidator", "stranger", victim]);
        // keepers must stay able to liquidate while trading is paused (C07 / C14): one attempt in six is made
        // with the engine paused by its pauser, on whichever liquidation path the position is on
        // hostile variant (C10): before the real attempt, somebody names a re-split of (vAMM address ++ victim) - a
        // pair that hashes to the victim's position key - hoping to have the under-margined victim liquidated
        // through a call that names another (vamm, trader) pair
        if victim.len() >= 4 && self.rng.chance(self.prof.alias_pct, 400) {
            let k = self.rng.range(1, victim.len() as u64 - 3) as usize;
            let va = Self::vaddr(h, v);
            let (fake_vamm, fake_trader) = if self.rng.chance(1, 2) {
                (format!("{}{}", va, &victim[..k]), victim[k..].to_string())
            } else {
                // split inside the vAMM's address instead
                let j = self.rng.range(3, va.len() as u64 - 1) as usize;
                (va[..j].to_string(), format!("{}{}", &va[j..], victim))
            };
            let op = Op::Engine { sender: "stranger".into(), msg: eng::ExecuteMsg::Liquidate { vamm: fake_vamm, trader: fake_trader, quote_asset_limit: u(0) }, funds: 0 };
            self.do_step(h, r, op);
        }
        // de-listing ANOTHER market must not take this one out of the registry (and with it the ability to liquidate here)
        let mut delisted: Option<usize> = None;
        if h.w.vamms.len() > 1 && self.rng.chance(1, 6) {
            let others: Vec<usize> = (0..h.w.vamms.len()).filter(|i| *i != v && h.last.vamms[*i].registered).collect();
            if !others.is_empty() {
                let u_idx = *self.rng.pick(&others);
                let owner = h.last.ins_owner.clone();
                let addr = Self::vaddr(h, u_idx);
                h.step(Op::Insurance { sender: owner, msg: ins::ExecuteMsg::RemoveVamm { vamm: addr } }, r);
                delisted = Some(u_idx);
            }
        }
        let pause_around = self.rng.chance(1, 6) && !h.last.eng.paused;
        if pause_around {
            let pauser = h.last.eng.pauser.clone();
            h.step(Op::Engine { sender: pauser, msg: eng::ExecuteMsg::SetPause { pause: true }, funds: 0 }, r);
        }
        let st = self.liquidate(h, r, caller, v, victim, 0);
        if pause_around && self.rng.chance(3, 4) {
            let pauser = h.last.eng.pauser.clone();
            h.step(Op::Engine { sender: pauser, msg: eng::ExecuteMsg::SetPause { pause: false }, funds: 0 }, r);
        }
        if let Some(u_idx) = delisted {
            if self.rng.chance(3, 4) {
                let owner = h.last.ins_owner.clone();
                let addr = Self::vaddr(h, u_idx);
                h.step(Op::Insurance { sender: owner, msg: ins::ExecuteMsg::AddVamm { vamm: addr } }, r);
            }
        }
        // same-block follow-ups (C16) and a repeat liquidation
        if st.out.ok && self.rng.chance(1, 2) {
            match self.rng.below(3) {
                0 => {
                    self.close(h, r, victim, v, 0);
                }
                1 => {
                    let m = (h.last.vamms[v].q / 10_000).max(10);
                    self.open(h, r, victim, v, buy, m, d, 0);
                }
                _ => {
                    // again in the same block, or in the next block of the same second
                    if self.rng.chance(1, 2) {
                        h.step(Op::Advance { blocks: 1, secs: 0, nanos: 0 }, r);
                    }
                    self.liquidate(h, r, "liquidator", v, victim, 0);
                }
            }
        }
    }

    /// A busy market: a leveraged position, a price move against it, then a trade in each of 78-110 consecutive short
    /// blocks - more reserve snapshots inside the fifteen-minute window than any fixture produces, with the price move
    /// older than all of them but still inside the window - and then decisions that depend on the 15-minute TWAP: a
    /// liquidation attempt on the position (under-margined by spot, not necessarily by TWAP), a withdrawal, a funding round.
    pub fn macro_busy_market(&mut self, h: &mut History, r: &mut Report) {
        let v = self.pick_vamm(h);
        if !h.last.vamms[v].open || !h.last.vamms[v].registered || h.last.eng.paused {
            return;
        }
        let victim = self.pick_trader();
        let d = h.w.d;
        let buy = self.rng.chance(1, 2);
        let init = h.last.eng.initial.max(1);
        let maint = h.last.eng.maint;
        let lev = (d * d / init).max(d);
        let frac = *self.rng.pick(&[1_000u128, 10_000, 30_000]);
        if !self.ensure_position(h, r, victim, v, buy, frac, lev) {
            return;
        }
        self.advance(h, r, 3, 20);
        // far enough for the spot ratio to fall to about the maintenance ratio (sometimes well below it)
        let extra = *self.rng.pick(&[0u128, 5_000, 20_000, 60_000]);
        let mut pct = (init.saturating_sub(maint)) * 1_000_000 / d + extra;
        let fl = h.last.vamms[v].fluct;
        if fl > 0 {
            pct = pct.min(fl * 1_000_000 / d * 8 / 10).max(500);
        }
        self.move_price(h, r, v, !buy, pct.max(1_000));
        let n = self.rng.range(78, 110);
        r.count("macro:busy-market-runs");
        let others: Vec<&'static str> = TRADERS.iter().cloned().filter(|t| *t != victim && *t != "whale").collect();
        for i in 0..n {
            let secs = self.rng.range(3, 8);
            h.step(Op::Advance { blocks: 1, secs, nanos: 0 }, r);
            let who = others[(i as usize) % others.len()];
            let m = (h.last.vamms[v].q / 10_000_000).max(10) + self.rng.below(50) as u128;
            self.open(h, r, who, v, i % 2 == 0, m, d, 0);
        }
        let caller = *self.rng.pick(&["liquidator", "stranger"]);
        self.liquidate(h, r, caller, v, victim, 0);
        if h.last.pos(v, victim).map(|p| p.size != 0).unwrap_or(false) {
            let m = h.last.pos(v, victim).map(|p| p.margin).unwrap_or(0);
            self.withdraw(h, r, victim, v, (m / 50).max(1));
        }
        let who = others[0];
        let op = Op::Engine { sender: who.into(), msg: eng::ExecuteMsg::PayFunding { vamm: Self::vaddr(h, v) }, funds: 0 };
        self.do_step(h, r, op);
    }

    pub fn macro_funding_shock(&mut self, h: &mut History, r: &mut Report) {
        let v = self.pick_vamm(h);
        let rounds = self.rng.range(1, 4);
        // a vAMM that is re-opened at an arbitrary second gets a funding schedule that is not aligned to the hour;
        // the first settlement after that (often made exactly on time below) is where the half-period buffer decides
        let mut reopened = false;
        if h.last.vamms[v].open && self.rng.chance(1, 4) {
            let owner = h.last.vamms[v].owner.clone();
            h.step(Op::Vamm { sender: owner.clone(), vamm: v, msg: vm::ExecuteMsg::SetOpen { open: false } }, r);
            h.step(Op::Vamm { sender: owner, vamm: v, msg: vm::ExecuteMsg::SetOpen { open: true } }, r);
            reopened = true;
        }
        for round in 0..rounds {
            let spot = h.last.vamms[v].spot.max(1);
            let f = *self.rng.pick(&[50u128, 80, 95, 99, 100, 101, 105, 125, 200]);
            self.oracle(h, r, spot * f / 100);
            let nft = h.last.vamms[v].next_funding_time;
            let now = h.last.time;
            let late = if reopened && round == 0 && self.rng.chance(2, 3) { 0 } else { self.rng.range(0, 3) };
            let s = if nft > now { nft - now + late } else { self.rng.range(0, 100) };
            // move in two hops so the TWAP window contains several snapshots
            self.advance(h, r, (s / 12).max(1), s / 2);
            if self.rng.chance(1, 2) {
                self.rand_open(h, r);
            }
            self.advance(h, r, (s / 12).max(1), s - s / 2);
            let c = *self.rng.pick(&["liquidator", "stranger", "bob"]);
            self.pay_funding(h, r, c, v);
            // owner operations that must settle funding
            for _ in 0..self.rng.range(0, 3) {
                match self.rng.below(5) {
                    0 => self.rand_open(h, r),
                    1 => self.rand_close(h, r),
                    2 => self.rand_withdraw(h, r),
                    3 => self.rand_deposit(h, r),
                    _ => self.rand_liquidate(h, r),
                };
            }
        }
    }

    /// trade sized by dry-run bisection so the post-trade price lands at the fluctuation bound
    pub fn macro_band_edge(&mut self, h: &mut History, r: &mut Report) {
        let cands: Vec<usize> = (0..h.w.vamms.len()).filter(|i| h.last.vamms[*i].fluct > 0 && h.last.vamms[*i].open).collect();
        if cands.is_empty() || h.last.eng.paused {
            return;
        }
        let v = *self.rng.pick(&cands);
        let d = h.w.d;
        let t = self.pick_trader();
        // optionally pre-drift inside the block
        if self.rng.chance(1, 2) {
            let up = self.rng.chance(1, 2);
            let fl = h.last.vamms[v].fluct;
            self.move_price(h, r, v, up, fl * 1_000_000 / d / 3);
        }
        if self.rng.chance(1, 3) {
            self.advance(h, r, 1, 6);
        }
        let buy = self.rng.chance(1, 2);
        let lev = d;
        let q = h.last.vamms[v].q;
        let mut lo: u128 = 1;
        let mut hi: u128 = q / 2;
        // bisection on margin (leverage 1 => notional = margin): largest accepted size
        let mk = |h: &History, m: u128, funds: u128| Op::Engine {
            sender: t.to_string(),
            msg: eng::ExecuteMsg::OpenPosition { vamm: Self::vaddr(h, v), side: side_of(buy), margin_amount: u(m), leverage: u(lev), base_asset_limit: u(0) },
            funds,
        };
        let mut best = 0u128;
        for _ in 0..60 {
            if lo > hi {
                break;
            }
            let mid = lo + (hi - lo) / 2;
            let funds = self.native_open_funds(h, t, v, buy, mid, lev);
            let op = mk(h, mid, funds);
            let cp = h.w.checkpoint();
            let out = apply(&mut h.w, &op, None);
            h.w.restore(cp);
            if out.ok {
                best = mid;
                lo = mid + 1;
            } else {
                if mid == 0 {
                    break;
                }
                hi = mid - 1;
            }
        }
        if best == 0 {
            return;
        }
        let order: [i128; 4] = *self.rng.pick(&[[1, 2, 0, -1], [2, 0, 1, -1], [0, 1, -1, 2], [5, 1, 0, -2]]);
        for delta in order {
            let m = (best as i128 + delta).max(1) as u128;
            let st = self.open(h, r, t, v, buy, m, lev, 0);
            if st.out.ok {
                break;
            }
        }
        // a close right at the band: position holder tries to close while price is at the edge
        if self.rng.chance(1, 2) {
            self.close(h, r, t, v, 0);
        }
    }

    /// close attempts with the price drifted to the band so that whole-close may or may not fit
    pub fn macro_close_at_band(&mut self, h: &mut History, r: &mut Report) {
        let cands: Vec<usize> = (0..h.w.vamms.len()).filter(|i| h.last.vamms[*i].fluct > 0 && h.last.vamms[*i].open).collect();
        if cands.is_empty() || h.last.eng.paused {
            return;
        }
        let v = *self.rng.pick(&cands);
        let d = h.w.d;
        let t = self.pick_trader();
        let buy = self.rng.chance(1, 2);
        let fl = h.last.vamms[v].fluct;
        // position sized as a multiple of the band width
        let width_ppm = fl * 1_000_000 / d;
        let frac = width_ppm * *self.rng.pick(&[2u128, 5, 8, 10, 15]) / 20;
        if !self.ensure_position(h, r, t, v, buy, frac.max(100), 2 * d) {
            return;
        }
        self.advance(h, r, 1, 6);
        // drift inside the new block in either direction
        let up = self.rng.chance(1, 2);
        let drift = width_ppm * self.rng.u128_range(1, 9) / 10;
        self.move_price(h, r, v, up, drift);
        // half of these closes carry a slippage limit at the quote (+-1): a close that trips the band is still a
        // whole-position close when the partial ratio is 100%, and then the caller's limit must apply unchanged (C17)
        let mut limit = 0u128;
        if self.rng.chance(1, 2) {
            if let Some(p) = h.last.pos(v, t) {
                let qte = h.w.output_amount(v, p.long_dir, p.size.unsigned_abs()).unwrap_or(0);
                let delta: i128 = *self.rng.pick(&[-1, 0, 1]);
                limit = (qte as i128 + delta).max(0) as u128;
            }
        }
        self.close(h, r, t, v, limit);
    }

    /// A close whose whole-close price lands EXACTLY on the edge of the band, with no rounding anywhere: on a market
    /// nobody else trades on, a long of a quarter of the quote reserve moves the price by x1.5625 (a short of a fifth by
    /// x0.64); in the next block the limit is set to 36 % (56.25 %), so that closing the whole position brings the price
    /// back exactly onto the lower (upper) limit. Reserves that are whole multiples of 20 units make every quotient exact.
    /// One time in three the limit is one raw unit tighter or looser (whole close just outside / just inside).
    pub fn macro_exact_edge_close(&mut self, h: &mut History, r: &mut Report) {
        let d = h.w.d;
        let cands: Vec<usize> = (0..h.w.vamms.len()).filter(|i| { let v = &h.last.vamms[*i]; v.tps == 0 && v.open && v.registered }).collect();
        if cands.is_empty() || h.last.eng.paused {
            return;
        }
        let v = *self.rng.pick(&cands);
        let t = self.pick_trader();
        if h.last.pos(v, t).is_some() {
            return;
        }
        let long = self.rng.chance(1, 2);
        let owner = h.last.eng.owner.clone();
        if h.last.eng.partial == 0 || h.last.eng.partial >= d {
            let p = *self.rng.pick(&[d / 4, d / 2, d / 10]);
            if !self.eng_cfg(h, r, &owner, None, None, Some(p), None).out.ok {
                return;
            }
        }
        if h.last.vamms[v].fluct != 0 && !self.vamm_cfg(h, r, v, |c| c.fluct = Some(0)).out.ok {
            return;
        }
        let q = h.last.vamms[v].q;
        let n = if long { q / 4 } else { q / 5 };
        let init = h.last.eng.initial.max(1);
        let kmax = (d / init).clamp(1, 10);
        let k = (1..=kmax).rev().find(|k| n % k == 0).unwrap_or(1);
        if !self.open(h, r, t, v, long, n / k, k * d, 0).out.ok {
            return;
        }
        self.advance(h, r, 1, 6);
        let mut l = if long { d / 100 * 36 } else { d / 10_000 * 5625 };
        match self.rng.below(6) {
            0 => l += 1,
            1 => l -= 1,
            _ => {}
        }
        if !self.vamm_cfg(h, r, v, |c| c.fluct = Some(l)).out.ok {
            return;
        }
        self.close(h, r, t, v, 0);
    }

    /// A liquidation attempted while the spot price sits EXACTLY on the upper limit of the band (on it is not outside it),
    /// with no rounding anywhere. On a market nobody else trades on: the victim shorts a fifth of the quote reserve
    /// (reserves x0.8 / x1.25); next block the whale buys 45 % of the original quote reserve (x1.25 / x0.8 of the
    /// original, price x1.5625 of the original); a quarter of an hour later, so that the TWAP has caught up, the limit is
    /// set to 63.84 % and the whale buys another 35 % (x1.6 / x0.625): the price is now 1.6384 x the previous block's
    /// price, exactly the upper limit. The victim is deep under water by spot and TWAP and is liquidated in that block.
    pub fn macro_exact_edge_liquidation(&mut self, h: &mut History, r: &mut Report) {
        let d = h.w.d;
        let cands: Vec<usize> = (0..h.w.vamms.len()).filter(|i| { let v = &h.last.vamms[*i]; v.tps == 0 && v.open && v.registered && v.q % 100 == 0 && v.b % 64 == 0 }).collect();
        if cands.is_empty() || h.last.eng.paused || h.last.eng.liq_fee == 0 {
            return;
        }
        let v = *self.rng.pick(&cands);
        let victim = TRADERS[self.rng.below(4) as usize];
        if h.last.pos(v, victim).is_some() || h.last.pos(v, "whale").is_some() {
            return;
        }
        let owner = h.last.eng.owner.clone();
        // the full path unless the deployment's partial ratio is kept (one time in three)
        if h.last.eng.partial != 0 && self.rng.chance(2, 3) && !self.eng_cfg(h, r, &owner, None, None, Some(0), None).out.ok {
            return;
        }
        if h.last.vamms[v].fluct != 0 && !self.vamm_cfg(h, r, v, |c| c.fluct = Some(0)).out.ok {
            return;
        }
        let q0 = h.last.vamms[v].q;
        let init = h.last.eng.initial.max(1);
        let kmax = (d / init).clamp(1, 10);
        let lev_for = |n: u128| (1..=kmax).rev().find(|k| n % k == 0).unwrap_or(1);
        // collateral for the three trades and a fund that can cover the victim's bad debt
        let ins = h.w.insurance.to_string();
        h.step(Op::Send { from: "bank".into(), to: "whale".into(), amount: q0 }, r);
        h.step(Op::Send { from: "bank".into(), to: victim.into(), amount: q0 / 4 }, r);
        h.step(Op::Send { from: "bank".into(), to: ins, amount: q0 * 4 }, r);
        let n1 = q0 / 5;
        let k1 = lev_for(n1);
        if !self.open(h, r, victim, v, false, n1 / k1, k1 * d, 0).out.ok {
            return;
        }
        self.advance(h, r, 1, 6);
        let n2 = q0 / 100 * 45;
        let k2 = lev_for(n2);
        if !self.open(h, r, "whale", v, true, n2 / k2, k2 * d, 0).out.ok {
            return;
        }
        self.advance(h, r, 160, 16 * 60);
        if !self.vamm_cfg(h, r, v, |c| c.fluct = Some(d / 10_000 * 6384)).out.ok {
            return;
        }
        let n3 = q0 / 100 * 35;
        let k3 = lev_for(n3);
        if !self.open(h, r, "whale", v, true, n3 / k3, k3 * d, 0).out.ok {
            return;
        }
        let spot = h.last.vamms[v].spot;
        self.oracle(h, r, spot);
        let caller = *self.rng.pick(&["liquidator", "stranger"]);
        self.liquidate(h, r, caller, v, victim, 0);
    }

    pub fn macro_same_block(&mut self, h: &mut History, r: &mut Report) {
        // a few operations by several traders without advancing the block, then a liquidation attempt, then more
        let v = self.pick_vamm(h);
        for _ in 0..self.rng.range(1, 4) {
            match self.rng.below(3) {
                0 => self.rand_open(h, r),
                1 => self.rand_close(h, r),
                _ => self.rand_liquidate(h, r),
            };
        }
        let _ = v;
    }

    pub fn macro_admin_storm(&mut self, h: &mut History, r: &mut Report) {
        for _ in 0..self.rng.range(2, 5) {
            self.rand_admin(h, r);
            for _ in 0..self.rng.range(1, 4) {
                match self.rng.below(7) {
                    0 => self.rand_open(h, r),
                    1 => self.rand_close(h, r),
                    2 => self.rand_deposit(h, r),
                    3 => self.rand_withdraw(h, r),
                    4 => self.rand_liquidate(h, r),
                    5 => {
                        let v = self.pick_vamm(h);
                        self.pay_funding(h, r, "stranger", v)
                    }
                    _ => self.rand_advance(h, r),
                };
            }
        }
    }

    /// A position that is large relative to the reserves (notional 0.8 .. 2 x the quote reserve), a price move by
    /// somebody else, then a reduction by 85 .. 99 % of its value (and, where a band and a partial ratio are set, a
    /// ClosePosition that trips the band): the states in which the pro-rata remainder of the open notional is negative.
    pub fn macro_oversized_reduce(&mut self, h: &mut History, r: &mut Report) {
        let cands: Vec<usize> = (0..h.w.vamms.len()).filter(|i| { let v = &h.last.vamms[*i]; v.open && v.registered && v.fluct == 0 && v.oi_cap == 0 && v.holding_cap == 0 }).collect();
        if cands.is_empty() || h.last.eng.paused {
            return;
        }
        let v = *self.rng.pick(&cands);
        let d = h.w.d;
        let t = "whale";
        if h.last.pos(v, t).map(|p| p.size != 0).unwrap_or(false) {
            return;
        }
        let q = h.last.vamms[v].q;
        let n = q / 100 * self.rng.u128_range(100, 400);
        let init = h.last.eng.initial.max(1);
        let lev = (d * d / init).max(d);
        let margin = (n / lev * d + n % lev * d / lev).max(1);
        h.step(Op::Send { from: "bank".into(), to: t.into(), amount: margin.saturating_mul(2) + n / 5 }, r);
        let long = self.rng.chance(1, 2);
        if !self.open(h, r, t, v, long, margin, lev, 0).out.ok {
            return;
        }
        self.advance(h, r, 1, 6);
        // somebody else moves the price in the position's favour or against it
        // (a large move in the position's favour makes the remaining cost basis small next to what the curve pays
        // for the first part of a big sale: that is where the pro-rata remainder turns negative)
        let fav = self.rng.chance(4, 5);
        let pct = if fav { self.rng.u128_range(100_000, 1_500_000) } else { self.rng.u128_range(10_000, 120_000) };
        let mover = self.pick_trader();
        h.step(Op::Send { from: "bank".into(), to: mover.into(), amount: h.last.vamms[v].q / 10 }, r);
        self.move_price_by(h, r, mover, v, long == fav, pct);
        if self.rng.chance(1, 2) {
            self.advance(h, r, 1, 6);
        }
        let Some(p) = h.last.pos(v, t).cloned() else { return };
        let pn = h.w.output_amount(v, p.long_dir, p.size.unsigned_abs()).unwrap_or(0);
        if pn == 0 {
            return;
        }
        let cut = pn / 1000 * self.rng.u128_range(900, 995);
        r.count("macro:oversized-reduce-attempts");
        if self.open(h, r, t, v, !p.long_dir, cut.max(1), d, 0).out.ok {
            r.count("macro:oversized-reduce-done");
        }
        if self.rng.chance(1, 2) {
            self.close(h, r, t, v, 0);
        }
    }

    pub fn macro_reversal(&mut self, h: &mut History, r: &mut Report) {
        if self.rng.chance(1, 4) {
            return self.macro_oversized_reduce(h, r);
        }
        let Some((t, v)) = self.rand_pos(h) else { return };
        let Some(p) = h.last.pos(v, &t).cloned() else { return };
        if p.size == 0 {
            return;
        }
        let d = h.w.d;
        let pn = h.w.output_amount(v, p.long_dir, p.size.unsigned_abs()).unwrap_or(0);
        if pn == 0 {
            return;
        }
        let n = match self.rng.below(6) {
            0 => pn.saturating_sub(1),
            1 => pn,
            2 => pn + 1,
            3 => pn * 2,
            4 => pn / 2,
            _ => pn + self.rng.log_uniform(1, pn.max(2)),
        }
        .max(1);
        let lev = *self.rng.pick(&[d, 2 * d, 5 * d]);
        let margin = (n * d / lev).max(1);
        self.open(h, r, &t, v, !p.long_dir, margin, lev, 0);
    }

    pub fn macro_boundary_leverage(&mut self, h: &mut History, r: &mut Report) {
        let d = h.w.d;
        let init = h.last.eng.initial.max(1);
        let maxl = d * d / init;
        let t = self.pick_trader();
        let v = self.pick_vamm(h);
        let q = h.last.vamms[v].q;
        for lev in [maxl, maxl + 1, maxl.saturating_sub(1), d, d - 1] {
            let n = self.rng.log_uniform(1000, (q / 50).max(2000));
            let margin = (n * d / lev).max(1);
            let buy = self.rng.chance(1, 2);
            self.open(h, r, t, v, buy, margin, lev, 0);
        }
    }

    pub fn macro_withdraw_edge(&mut self, h: &mut History, r: &mut Report) {
        let Some((t, v)) = self.rand_pos(h) else { return };
        if self.rng.chance(1, 2) {
            let dd = h.w.d;
            let am = self.rng.log_uniform(1, 100 * dd);
            self.deposit(h, r, &t, v, am);
        }
        let fc = h.w.free_collateral(v, &t).unwrap_or(0);
        if fc <= 0 {
            self.withdraw(h, r, &t, v, 1);
            return;
        }
        let fc = fc as u128;
        let order = if self.rng.chance(1, 2) { [fc + 1, fc, 1] } else { [fc.saturating_sub(1).max(1), 1, fc + 1] };
        for a in order {
            self.withdraw(h, r, &t, v, a);
        }
    }

    /// limits exactly at / around the quote on open (increase / reduce) and whole close
    pub fn macro_limit_edge(&mut self, h: &mut History, r: &mut Report) {
        let d = h.w.d;
        let v = self.pick_vamm(h);
        let t = self.pick_trader();
        let q = h.last.vamms[v].q;
        let delta: i128 = *self.rng.pick(&[-1, 0, 1]);
        match self.rng.below(3) {
            0 | 1 => {
                let buy = self.rng.chance(1, 2);
                let lev = *self.rng.pick(&[d, 2 * d, 3 * d]);
                let n = self.rng.log_uniform(100, (q / 30).max(200));
                let margin = (n * d / lev).max(1);
                let nn = margin * lev / d;
                let qte = h.w.input_amount(v, buy, nn).unwrap_or(0);
                let limit = (qte as i128 + delta).max(0) as u128;
                self.open(h, r, t, v, buy, margin, lev, limit);
            }
            _ => {
                if let Some((t, v)) = self.rand_pos(h) {
                    if let Some(p) = h.last.pos(v, &t) {
                        let qte = h.w.output_amount(v, p.long_dir, p.size.unsigned_abs()).unwrap_or(0);
                        let limit = (qte as i128 + delta).max(0) as u128;
                        self.close(h, r, &t, v, limit);
                    }
                }
            }
        }
    }

    pub fn macro_caps(&mut self, h: &mut History, r: &mut Report) {
        let v = self.pick_vamm(h);
        let q = h.last.vamms[v].q;
        let b = h.last.vamms[v].b;
        let oi_now = h.last.eng.oi;
        let oi = *self.rng.pick(&[oi_now + q / 200, oi_now + 1, oi_now.saturating_sub(1).max(1), q / 100]);
        let hc = *self.rng.pick(&[b / 1000, b / 200, b / 50]);
        self.vamm_cfg(h, r, v, |c| {
            c.oi_cap = Some(oi);
            c.holding_cap = Some(hc)
        });
        if self.rng.chance(1, 3) {
            let t = self.pick_trader().to_string();
            let pauser = h.last.eng.pauser.clone();
            h.step(Op::Engine { sender: pauser, msg: eng::ExecuteMsg::AddWhitelist { address: t }, funds: 0 }, r);
        }
        for _ in 0..self.rng.range(2, 6) {
            let d = h.w.d;
            let t = self.pick_trader();
            let buy = self.rng.chance(1, 2);
            let n = *self.rng.pick(&[q / 400, q / 150, q / 60, 10 * d]);
            let lev = 2 * d;
            self.open(h, r, t, v, buy, (n * d / lev).max(1), lev, 0);
            if self.rng.chance(1, 3) {
                self.rand_close(h, r);
            }
        }
    }

    /// Pyramid: several traders open on the same side one after another at high leverage; the early ones
    /// take their profit out of a vault that holds only the others' margin (shortfall -> prepaid bad debt,
    /// vault drained), then the late ones are liquidated with bad debt while some of it is already prepaid.
    pub fn macro_pyramid(&mut self, h: &mut History, r: &mut Report) {
        let v = self.pick_vamm(h);
        if !h.last.vamms[v].open || !h.last.vamms[v].registered || h.last.eng.paused {
            return;
        }
        let d = h.w.d;
        let buy = self.rng.chance(1, 2);
        let init = h.last.eng.initial.max(1);
        let maxl = (d * d / init).max(d);
        let q = h.last.vamms[v].q;
        let k = self.rng.range(2, 4) as usize;
        let mut who: Vec<&'static str> = vec![];
        for i in 0..k {
            let t = TRADERS[i];
            // close whatever they hold first so the pyramid is clean
            if h.last.pos(v, t).is_some() {
                self.close(h, r, t, v, 0);
            }
            let frac = *self.rng.pick(&[20u128, 40, 80, 150]); // permille of the quote reserve
            let lev = if i + 1 == k && self.rng.chance(1, 2) { d } else { maxl };
            let n = q * frac / 1000;
            let st = self.open(h, r, t, v, buy, (n * d / lev).max(1), lev, 0);
            if st.out.ok {
                who.push(t);
            }
            if self.rng.chance(1, 3) {
                self.advance(h, r, 1, 6);
            }
        }
        if who.len() < 2 {
            return;
        }
        // the first one (deepest in profit) cashes out; sometimes the second too
        let takers = if self.rng.chance(1, 3) { 2 } else { 1 };
        for t in who.iter().take(takers) {
            self.close(h, r, t, v, 0);
        }
        self.advance(h, r, 40, 910);
        // liquidate the rest, lowest ratio first
        // a liquidation cascade: in one block, over ordinary blocks, or over fast blocks that share one second of
        // block time (a new block is a new block for the price band whatever its timestamp)
        for _ in 0..who.len() {
            self.rand_liquidate(h, r);
            match self.rng.below(4) {
                0 => {
                    self.advance(h, r, 1, 6);
                }
                1 | 2 => {
                    h.step(Op::Advance { blocks: 1, secs: 0, nanos: 0 }, r);
                }
                _ => {}
            }
        }
    }

    /// Pump and dump inside ONE block: a whale pumps, victims enter at the top with maximum leverage, the
    /// whale dumps; the victims are under water by spot and by TWAP at once and are liquidated in that same
    /// block, one after the other (every liquidation after the first happens in a "liquidation block").
    pub fn macro_pump_dump(&mut self, h: &mut History, r: &mut Report) {
        let cands: Vec<usize> = (0..h.w.vamms.len()).filter(|i| h.last.vamms[*i].fluct == 0 && h.last.vamms[*i].open && h.last.vamms[*i].registered).collect();
        if cands.is_empty() || h.last.eng.paused {
            return;
        }
        let v = *self.rng.pick(&cands);
        let d = h.w.d;
        let up = self.rng.chance(1, 2);
        // quiet history so that the TWAP sits at the pre-pump price
        self.advance(h, r, 50, 1000);
        let q = h.last.vamms[v].q;
        let init = h.last.eng.initial.max(1);
        let maxl = (d * d / init).max(d);
        if h.last.pos(v, "whale").is_some() {
            self.close(h, r, "whale", v, 0);
        }
        let pump = q * self.rng.u128_range(15, 40) / 100;
        if !self.open(h, r, "whale", v, up, pump, d, 0).out.ok {
            return;
        }
        let k = self.rng.range(2, 3) as usize;
        for t in TRADERS.iter().take(k) {
            if h.last.pos(v, t).is_some() {
                self.close(h, r, t, v, 0);
            }
            let n = q * self.rng.u128_range(2, 20) / 1000;
            self.open(h, r, t, v, up, (n * d / maxl).max(1), maxl, 0);
        }
        self.close(h, r, "whale", v, 0);
        let fast_blocks = self.rng.chance(1, 3);
        for t in TRADERS.iter().take(k) {
            let caller = *self.rng.pick(&["liquidator", "stranger"]);
            self.liquidate(h, r, caller, v, t, 0);
            if fast_blocks {
                h.step(Op::Advance { blocks: 1, secs: 0, nanos: 0 }, r);
            }
        }
    }

    pub fn run_macro(&mut self, h: &mut History, r: &mut Report) {
        let ws = self.prof.w_macro;
        match self.rng.weighted(&ws) {
            0 => {}
            1 => self.macro_underwater(h, r),
            2 => self.macro_funding_shock(h, r),
            3 => {
                if self.rng.chance(1, 2) {
                    self.macro_band_edge(h, r)
                } else {
                    self.macro_close_at_band(h, r)
                }
            }
            4 => {
                if self.rng.chance(self.prof.pyramid_pct, 100) {
                    if self.rng.chance(1, 3) {
                        self.macro_pump_dump(h, r)
                    } else {
                        self.macro_pyramid(h, r)
                    }
                } else {
                    self.macro_same_block(h, r)
                }
            }
            5 => self.macro_admin_storm(h, r),
            6 => self.macro_reversal(h, r),
            7 => self.macro_boundary_leverage(h, r),
            8 => self.macro_withdraw_edge(h, r),
            9 => self.macro_limit_edge(h, r),
            _ => self.macro_caps(h, r),
        }
    }

    /// one W-ENG history
    pub fn run_history(&mut self, h: &mut History, r: &mut Report) {
        let n = if self.rng.chance(self.prof.long_pct, 100) { self.rng.range(400, 1500) } else { self.rng.range(self.prof.steps.0, self.prof.steps.1) };
        if self.rng.chance(self.prof.exact_edge_pct, 100) {
            self.macro_exact_edge_close(h, r);
        }
        if self.rng.chance(self.prof.exact_edge_liq_pct, 100) {
            self.macro_exact_edge_liquidation(h, r);
        }
        if self.rng.chance(self.prof.busy_pct, 100) {
            self.macro_busy_market(h, r);
        }
        // seed a few positions so that early steps are not vacuous
        for _ in 0..3 {
            self.rand_open(h, r);
        }
        while h.steps < n {
            if self.rng.chance(self.prof.macro_pct, 100) {
                self.run_macro(h, r);
            } else {
                self.rand_op(h, r);
            }
        }
        h.finish(r);
    }
}

#[derive(Default)]
pub struct VCfg {
    pub holding_cap: Option<u128>,
    pub oi_cap: Option<u128>,
    pub toll: Option<u128>,
    pub spread: Option<u128>,
    pub fluct: Option<u128>,
    pub twap_interval: Option<u64>,
}

//! splitmix64: every random choice in the harness flows from VERIF_SEED through this.
#[derive(Clone)]
pub struct Rng(pub u64);

impl Rng {
    pub fn new(seed: u64) -> Rng {
        Rng(seed ^ 0x9E37_79B9_7F4A_7C15)
    }
    pub fn next(&mut self) -> u64 {
        self.0 = self.0.wrapping_add(0x9E37_79B9_7F4A_7C15);
        let mut z = self.0;
        z = (z ^ (z >> 30)).wrapping_mul(0xBF58_476D_1CE4_E5B9);
        z = (z ^ (z >> 27)).wrapping_mul(0x94D0_49BB_1331_11EB);
        z ^ (z >> 31)
    }
    pub fn below(&mut self, n: u64) -> u64 {
        if n == 0 {
            0
        } else {
            self.next() % n
        }
    }
    pub fn range(&mut self, lo: u64, hi: u64) -> u64 {
        lo + self.below(hi - lo + 1)
    }
    pub fn u128_below(&mut self, n: u128) -> u128 {
        if n == 0 {
            return 0;
        }
        let v = ((self.next() as u128) << 64) | self.next() as u128;
        v % n
    }
    pub fn u128_range(&mut self, lo: u128, hi: u128) -> u128 {
        if hi <= lo {
            return lo;
        }
        lo + self.u128_below(hi - lo + 1)
    }
    pub fn chance(&mut self, num: u64, den: u64) -> bool {
        self.below(den) < num
    }
    pub fn pick<'a, T>(&mut self, xs: &'a [T]) -> &'a T {
        &xs[self.below(xs.len() as u64) as usize]
    }
    /// log-uniform in [lo, hi]
    pub fn log_uniform(&mut self, lo: u128, hi: u128) -> u128 {
        if hi <= lo {
            return lo;
        }
        let lo_b = 128 - lo.max(1).leading_zeros();
        let hi_b = 128 - hi.leading_zeros();
        let bits = self.range(lo_b as u64, hi_b as u64) as u32;
        let top = if bits >= 128 { u128::MAX } else { (1u128 << bits) - 1 };
        let bot = if bits <= 1 { 0 } else { 1u128 << (bits - 1) };
        let v = self.u128_range(bot, top);
        v.clamp(lo, hi)
    }
    pub fn weighted(&mut self, ws: &[u64]) -> usize {
        let total: u64 = ws.iter().sum();
        let mut x = self.below(total.max(1));
        for (i, w) in ws.iter().enumerate() {
            if x < *w {
                return i;
            }
            x -= *w;
        }
        ws.len() - 1
    }
    pub fn fork(&mut self) -> Rng {
        Rng::new(self.next())
    }
}

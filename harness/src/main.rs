mod big;
mod ops;
mod rng;
mod world;

use world::*;

fn main() {
    let cfg = DeployCfg {
        collateral: Collateral::Cw20 { decimals: 6 },
        feed: FeedKind::Mock,
        vamms: vec![VammCfg { quote_reserve: 1_000_000_000, base_reserve: 100_000_000, toll: 0, spread: 0, fluct: 0, funding_period: 86400, decimals: None, live: true }],
        initial_ratio: 50_000,
        maint_ratio: 50_000,
        liq_fee: 50_000,
        partial_ratio: 0,
        trader_funds: 5_000_000_000,
        insurance_funds: 5_000_000_000,
        oracle_price: 10_000_000,
        vamm_engine_override: None,
    };
    let mut w = World::deploy(&cfg);
    let s = w.snap();
    println!("{}", serde_json::to_string_pretty(&s).unwrap());
    let v = w.vamms[0].to_string();
    let e = w.engine.clone();
    let o = w.exec("alice", &e, &margined_perp::margined_engine::ExecuteMsg::OpenPosition { vamm: v, side: margined_perp::margined_engine::Side::Buy, margin_amount: 60_000_000u128.into(), leverage: 10_000_000u128.into(), base_asset_limit: 0u128.into() }, 0, None);
    println!("{:?}", o);
    println!("{}", serde_json::to_string(&w.snap().pos).unwrap());
}

mod acl;
mod big;
mod gen;
mod intlog;
mod mon;
mod ops;
mod plan;
mod rng;
mod twin;
mod world;

use ops::*;
use rng::Rng;
use serde_json::{json, Value};
use std::collections::BTreeMap;
use std::panic::{catch_unwind, AssertUnwindSafe};
use std::time::Instant;

pub static LAST_PANIC: std::sync::Mutex<String> = std::sync::Mutex::new(String::new());

pub fn last_panic() -> String {
    LAST_PANIC.lock().map(|g| g.clone()).unwrap_or_default()
}

pub struct Args {
    pub cmd: String,
    pub prop: String,
    pub tier: String,
    pub seed: u64,
    pub shard: u64,
    pub nshards: u64,
    pub out: String,
    pub file: String,
    pub budget: Option<u64>,
}

fn parse_args() -> Args {
    let v: Vec<String> = std::env::args().collect();
    let mut a = Args {
        cmd: v.get(1).cloned().unwrap_or_default(),
        prop: "C01".into(),
        tier: "quick".into(),
        seed: 1,
        shard: 0,
        nshards: 1,
        out: String::new(),
        file: String::new(),
        budget: None,
    };
    let mut i = 2;
    while i + 1 < v.len() + 1 {
        let k = match v.get(i) {
            Some(k) => k.as_str(),
            None => break,
        };
        let val = v.get(i + 1).cloned().unwrap_or_default();
        match k {
            "--prop" => a.prop = val,
            "--tier" => a.tier = val,
            "--seed" => a.seed = val.parse().unwrap_or(1),
            "--shard" => a.shard = val.parse().unwrap_or(0),
            "--nshards" => a.nshards = val.parse().unwrap_or(1),
            "--out" => a.out = val,
            "--file" => a.file = val,
            "--budget" => a.budget = val.parse().ok(),
            _ => {}
        }
        i += 2;
    }
    a
}

#[derive(Default)]
pub struct RunStats {
    pub histories: u64,
    pub steps: u64,
    pub failed_tx: u64,
    pub panics: u64,
    pub kinds: BTreeMap<String, (u64, u64)>,
    pub configs: BTreeMap<String, u64>,
    pub workloads: BTreeMap<String, u64>,
    pub errs: BTreeMap<String, u64>,
}

impl RunStats {
    pub fn absorb(&mut self, h: &History, workload: &str) {
        self.histories += 1;
        self.steps += h.steps;
        self.failed_tx += h.failed_tx;
        self.panics += h.panics;
        for (k, (a, b)) in &h.kinds {
            let e = self.kinds.entry(k.clone()).or_insert((0, 0));
            e.0 += a;
            e.1 += b;
        }
        for (k, n) in &h.errs {
            *self.errs.entry(k.clone()).or_insert(0) += n;
        }
        let c = &h.w.cfg;
        *self.configs.entry(format!("collateral={:?}", c.collateral)).or_insert(0) += 1;
        *self.configs.entry(format!("feed={:?}", c.feed)).or_insert(0) += 1;
        *self.configs.entry(format!("vamms={}", c.vamms.len())).or_insert(0) += 1;
        *self.configs.entry(format!("partial_ppm={}", c.partial_ratio * 1_000_000 / c.d())).or_insert(0) += 1;
        for v in &c.vamms {
            *self.configs.entry(format!("fluct_ppm={}", v.fluct * 1_000_000 / c.d())).or_insert(0) += 1;
            *self.configs.entry(format!("fees={}", if v.toll + v.spread == 0 { "none" } else if v.toll + v.spread < 10 { "rounds-to-zero" } else { "yes" })).or_insert(0) += 1;
        }
        *self.workloads.entry(workload.to_string()).or_insert(0) += 1;
    }
}

fn write_summary(a: &Args, report: &Report, stats: &RunStats, wall: f64, extra: Value) {
    let out = json!({
        "prop": a.prop, "tier": a.tier, "seed": a.seed, "shard": a.shard, "nshards": a.nshards,
        "histories": stats.histories, "steps": stats.steps, "failed_tx": stats.failed_tx, "panics_as_reverts": stats.panics,
        "evaluations": report.evaluations,
        "distinct": report.distinct.iter().collect::<Vec<_>>(),
        "counters": report.counters,
        "samples": report.samples,
        "violations": report.violations,
        "inconclusive": report.inconclusive,
        "kinds": stats.kinds.iter().map(|(k, v)| (k.clone(), json!({"ok": v.0, "failed": v.1}))).collect::<BTreeMap<_, _>>(),
        "configs": stats.configs,
        "workloads": stats.workloads,
        "errors": stats.errs,
        "wall_s": wall,
        "extra": extra,
    });
    let s = serde_json::to_string(&out).unwrap();
    if a.out.is_empty() {
        println!("{}", s);
    } else {
        std::fs::write(&a.out, s).expect("write summary");
    }
}

fn main() {
    let a = parse_args();
    // contract panics are reverted transactions; keep stderr quiet but remember the last message
    std::panic::set_hook(Box::new(|info| {
        if let Some(l) = info.location() {
            if let Ok(mut g) = LAST_PANIC.lock() {
                *g = format!("{}:{}", l.file(), l.line());
            }
        }
    }));
    let t0 = Instant::now();
    match a.cmd.as_str() {
        "run" => {
            let mut report = Report::default();
            let mut stats = RunStats::default();
            let mut extra = json!({});
            let res = catch_unwind(AssertUnwindSafe(|| plan::run(&a, &mut report, &mut stats, &mut extra)));
            if let Err(p) = res {
                let text = p.downcast_ref::<String>().cloned().or_else(|| p.downcast_ref::<&str>().map(|s| s.to_string())).unwrap_or_default();
                report.inconclusive(format!("harness panic: {} at {}", text, last_panic()));
            }
            write_summary(&a, &report, &stats, t0.elapsed().as_secs_f64(), extra);
        }
        "intlog" => {
            // perpmon intlog --seed S --shard i --budget N [--file pair.json] [--tier boundary]
            if !a.file.is_empty() {
                let text = std::fs::read_to_string(&a.file).expect("pair file");
                let v: Value = serde_json::from_str(&text).expect("pair json");
                let an = v["a"][0].as_bool().unwrap_or(false);
                let am: u128 = v["a"][1].as_str().unwrap_or("0").parse().unwrap_or(0);
                let bn = v["b"][0].as_bool().unwrap_or(false);
                let bm: u128 = v["b"][1].as_str().unwrap_or("0").parse().unwrap_or(0);
                println!("{}", intlog::record(an, am, bn, bm));
            } else {
                intlog::run(a.seed, a.shard, a.budget.unwrap_or(1000), a.shard == 0);
            }
        }
        "replay" => {
            let mut report = Report::default();
            let mut stats = RunStats::default();
            let text = std::fs::read_to_string(&a.file).expect("replay file");
            let v: Value = serde_json::from_str(&text).expect("replay json");
            let res = catch_unwind(AssertUnwindSafe(|| plan::replay(&a, &v, &mut report, &mut stats)));
            if let Err(p) = res {
                let text = p.downcast_ref::<String>().cloned().unwrap_or_default();
                report.inconclusive(format!("harness panic: {}", text));
            }
            write_summary(&a, &report, &stats, t0.elapsed().as_secs_f64(), json!({}));
        }
        _ => {
            eprintln!("usage: perpmon run|replay --prop Cxx --tier quick|thorough --seed N --shard i --nshards n --out file");
            std::process::exit(2);
        }
    }
    let _ = Rng::new(0);
}

pub mod basic;
pub mod util;

pub mod basic;
pub mod calc;
pub mod econ;
pub mod econ2;
pub mod rules;
pub mod util;
pub mod feedw;
pub mod vammw;

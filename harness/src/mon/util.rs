//! helpers shared by monitors
use crate::ops::*;
use crate::world::*;
use margined_perp::margined_engine as eng;

pub const REPLY_ACTIONS: [&str; 8] = [
    "update_position_reply",
    "reverse_position_reply",
    "close_position_reply",
    "partial_close_position_reply",
    "liquidation_reply",
    "partial_liquidation_reply",
    "pay_funding_reply",
    "insurance_withdraw",
];

/// engine reply path taken by a successful transaction as named by the engine's own `action` attributes. Kept only as
/// a cross-check of `classify_path` (counter `path-label-differs-from-event-names` in C02's report); verdicts and
/// signatures use the effect-based classification, so renaming an event attribute cannot change a verdict.
pub fn reply_path_from_events(w: &World, out: &TxOut) -> String {
    let e = w.engine.to_string();
    let i = w.insurance.to_string();
    let mut v = vec![];
    for ev in &out.events {
        if ev.ty != "wasm" {
            continue;
        }
        let c = attr(ev, "_contract_addr").unwrap_or("");
        let a = attr(ev, "action").unwrap_or("");
        if (c == e || c == i) && REPLY_ACTIONS.contains(&a) {
            v.push(a.trim_end_matches("_reply").to_string());
        }
    }
    if v.is_empty() {
        "-".to_string()
    } else {
        v.join("+")
    }
}

/// engine path of a transaction, classified from what it observably did: which message was sent, which swaps the
/// vAMM executed for it (kind and order), whether the position it is about still exists afterwards, and how many
/// times collateral moved from the insurance fund to the engine. The labels are those of the engine's reply handlers.
pub fn classify_path(w: &World, op: &Op, _pre: &Snap, post: &Snap, out: &TxOut) -> String {
    if !out.ok {
        return "-".to_string();
    }
    let mut v: Vec<&str> = vec![];
    if let Op::Engine { sender, msg, .. } = op {
        let swaps = swap_events(w, out);
        let kinds: Vec<bool> = swaps.iter().map(|s| s.input).collect(); // true = swap by quote (input), false = by base (output)
        match msg {
            eng::ExecuteMsg::OpenPosition { .. } => match kinds.as_slice() {
                [true] => v.push("update_position"),
                [false] => v.push("reverse_position"),
                [false, true] => {
                    v.push("reverse_position");
                    v.push("update_position");
                }
                _ => {}
            },
            eng::ExecuteMsg::ClosePosition { .. } => match kinds.as_slice() {
                [false] => v.push("close_position"),
                [true] => v.push("partial_close_position"),
                _ => {}
            },
            eng::ExecuteMsg::Liquidate { vamm, trader, .. } => {
                if kinds.len() == 1 {
                    let gone = w.vamm_idx(vamm.trim()).map(|vi| post.pos(vi, trader.trim()).is_none()).unwrap_or(true);
                    v.push(if gone { "liquidation" } else { "partial_liquidation" });
                }
            }
            eng::ExecuteMsg::PayFunding { .. } => v.push("pay_funding"),
            _ => {}
        }
        let _ = sender;
        let ins = w.insurance.to_string();
        let e = w.engine.to_string();
        for t in &out.transfers {
            if t.from == ins && t.to == e {
                v.push("insurance_withdraw");
            }
        }
    }
    if v.is_empty() {
        "-".to_string()
    } else {
        v.join("+")
    }
}

/// the path recorded with the step (effect-based); falls back to the event names for outcomes that were not recorded
/// through the history driver
pub fn reply_path(w: &World, out: &TxOut) -> String {
    match &out.path {
        Some(p) => p.clone(),
        None => reply_path_from_events(w, out),
    }
}

#[derive(Clone, Debug)]
pub struct SwapEv {
    pub vamm: usize,
    pub input: bool,
    pub add: bool,
    pub quote: u128,
    pub base: u128,
    pub q_after: u128,
    pub b_after: u128,
}

impl SwapEv {
    /// reserves after this swap, computed from the reserves before it and the exchanged amounts (an input swap in
    /// direction add, or an output swap in direction remove, adds quote and removes base; the other two the reverse)
    pub fn after(&self, q0: u128, b0: u128) -> (u128, u128) {
        if self.input == self.add {
            (q0.saturating_add(self.quote), b0.saturating_sub(self.base))
        } else {
            (q0.saturating_sub(self.quote), b0.saturating_add(self.base))
        }
    }
}

pub fn swap_events(w: &World, out: &TxOut) -> Vec<SwapEv> {
    let mut v = vec![];
    for ev in &out.events {
        // a swap report of a vAMM is recognised by the attributes the margin engine itself parses (type, quote and base
        // amount), not by its `action` label
        if ev.ty != "wasm" || !matches!(attr(ev, "type"), Some("input") | Some("output")) || attr_u128(ev, "quote_asset_amount").is_none() || attr_u128(ev, "base_asset_amount").is_none() {
            continue;
        }
        let Some(idx) = attr(ev, "_contract_addr").and_then(|a| w.vamm_idx(a)) else { continue };
        v.push(SwapEv {
            vamm: idx,
            input: attr(ev, "type") == Some("input"),
            add: attr(ev, "direction") == Some("AddToAmm"),
            quote: attr_u128(ev, "quote_asset_amount").unwrap_or(0),
            base: attr_u128(ev, "base_asset_amount").unwrap_or(0),
            q_after: attr_u128(ev, "quote_asset_reserve").unwrap_or(0),
            b_after: attr_u128(ev, "base_asset_reserve").unwrap_or(0),
        });
    }
    v
}

pub fn outcome(out: &TxOut) -> &'static str {
    if out.ok {
        "ok"
    } else if out.panicked {
        "panic"
    } else if out.fault_fired {
        "fault"
    } else {
        "err"
    }
}

/// normalise an error text: digits stripped, truncated
pub fn err_class(e: &str) -> String {
    let mut s: String = e.chars().filter(|c| !c.is_ascii_digit()).collect();
    s.truncate(90);
    s
}

pub fn mag_bucket(x: u128, of: u128) -> &'static str {
    if of == 0 {
        return "na";
    }
    if x == 0 {
        "0"
    } else if x <= 10 {
        "dust"
    } else if x < of / 10_000 {
        "tiny"
    } else if x < of / 100 {
        "small"
    } else if x < of / 10 {
        "mid"
    } else if x < of / 2 {
        "big"
    } else {
        "huge"
    }
}

pub fn engine_msg(op: &Op) -> Option<(&str, &eng::ExecuteMsg, u128)> {
    match op {
        Op::Engine { sender, msg, funds } => Some((sender.as_str(), msg, *funds)),
        _ => None,
    }
}

pub fn short_op(op: &Op) -> serde_json::Value {
    serde_json::to_value(op).unwrap_or(serde_json::Value::Null)
}

//! helpers shared by monitors
use crate::ops::*;
use crate::world::*;
use margined_perp::margined_engine as eng;

pub const REPLY_ACTIONS: [&str; 8] = [
    "update_position_reply",
    "reverse_position_reply",
    "close_position_reply",
    "partial_close_position_reply",
    "liquidation_reply",
    "partial_liquidation_reply",
    "pay_funding_reply",
    "insurance_withdraw",
];

/// engine reply path taken by a successful transaction, read from the events
pub fn reply_path(w: &World, out: &TxOut) -> String {
    let e = w.engine.to_string();
    let i = w.insurance.to_string();
    let mut v = vec![];
    for ev in &out.events {
        if ev.ty != "wasm" {
            continue;
        }
        let c = attr(ev, "_contract_addr").unwrap_or("");
        let a = attr(ev, "action").unwrap_or("");
        if (c == e || c == i) && REPLY_ACTIONS.contains(&a) {
            v.push(a.trim_end_matches("_reply").to_string());
        }
    }
    if v.is_empty() {
        "-".to_string()
    } else {
        v.join("+")
    }
}

#[derive(Clone, Debug)]
pub struct SwapEv {
    pub vamm: usize,
    pub input: bool,
    pub add: bool,
    pub quote: u128,
    pub base: u128,
    pub q_after: u128,
    pub b_after: u128,
}

pub fn swap_events(w: &World, out: &TxOut) -> Vec<SwapEv> {
    let mut v = vec![];
    for ev in &out.events {
        if ev.ty != "wasm" || attr(ev, "action") != Some("swap") {
            continue;
        }
        let Some(idx) = attr(ev, "_contract_addr").and_then(|a| w.vamm_idx(a)) else { continue };
        v.push(SwapEv {
            vamm: idx,
            input: attr(ev, "type") == Some("input"),
            add: attr(ev, "direction") == Some("AddToAmm"),
            quote: attr_u128(ev, "quote_asset_amount").unwrap_or(0),
            base: attr_u128(ev, "base_asset_amount").unwrap_or(0),
            q_after: attr_u128(ev, "quote_asset_reserve").unwrap_or(0),
            b_after: attr_u128(ev, "base_asset_reserve").unwrap_or(0),
        });
    }
    v
}

pub fn outcome(out: &TxOut) -> &'static str {
    if out.ok {
        "ok"
    } else if out.panicked {
        "panic"
    } else if out.fault_fired {
        "fault"
    } else {
        "err"
    }
}

/// normalise an error text: digits stripped, truncated
pub fn err_class(e: &str) -> String {
    let mut s: String = e.chars().filter(|c| !c.is_ascii_digit()).collect();
    s.truncate(90);
    s
}

pub fn mag_bucket(x: u128, of: u128) -> &'static str {
    if of == 0 {
        return "na";
    }
    if x == 0 {
        "0"
    } else if x <= 10 {
        "dust"
    } else if x < of / 10_000 {
        "tiny"
    } else if x < of / 100 {
        "small"
    } else if x < of / 10 {
        "mid"
    } else if x < of / 2 {
        "big"
    } else {
        "huge"
    }
}

pub fn engine_msg(op: &Op) -> Option<(&str, &eng::ExecuteMsg, u128)> {
    match op {
        Op::Engine { sender, msg, funds } => Some((sender.as_str(), msg, *funds)),
        _ => None,
    }
}

pub fn short_op(op: &Op) -> serde_json::Value {
    serde_json::to_value(op).unwrap_or(serde_json::Value::Null)
}

//! C14 (pause / closed / shutdown), C15 (price band), C16 (restriction mode), C17 (quotes and
//! limits, engine level), C18 (vAMM TWAP), C20 (caps and configuration bounds).
use super::econ2::BandTracker;
use super::util::*;
use crate::big::Big;
use crate::mon::calc::reference_twap;
use crate::ops::*;
use crate::world::*;
use margined_perp::margined_engine as eng;
use margined_perp::margined_insurance_fund as ins;
use margined_perp::margined_vamm as vm;
use serde_json::json;
use std::collections::{BTreeMap, BTreeSet};

// ------------------------------------------------------------------------------------------
// C14

#[derive(Default)]
pub struct C14 {
    /// the monitor's own record of the flags, derived only from ACCEPTED admin calls (never from the
    /// stored flags, which are part of what is being checked)
    paused: bool,
    open: Vec<bool>,
    registered: Vec<bool>,
}

impl C14 {
    /// flags as the monitor knows them vs as the contracts report them
    fn cross_check(&self, s: &Snap, r: &mut Report, seq: usize, after: &str) {
        let mut bad: Vec<String> = vec![];
        if s.eng.paused_reported && s.eng.paused != self.paused {
            bad.push(format!("engine pause flag is {} but accepted SetPause calls say {}", s.eng.paused, self.paused));
        }
        for (i, v) in s.vamms.iter().enumerate() {
            if v.open != self.open[i] {
                bad.push(format!("vamm{} reports open={} but accepted SetOpen/Shutdown calls say {}", i, v.open, self.open[i]));
            }
            if v.registered != self.registered[i] {
                bad.push(format!("vamm{} IsVamm={} but accepted Add/RemoveVamm calls say {}", i, v.registered, self.registered[i]));
            }
        }
        for b in bad {
            let sig: String = b.chars().filter(|c| !c.is_ascii_digit()).collect();
            r.violation("C14", "R0-flags-disagree-with-accepted-admin-calls", format!("R0|{}|{}", after, sig), b, seq);
        }
    }
}

impl Monitor for C14 {
    fn prop(&self) -> &'static str {
        "C14"
    }
    fn begin(&mut self, _w: &World, s0: &Snap, _r: &mut Report) {
        self.paused = s0.eng.paused;
        self.open = s0.vamms.iter().map(|v| v.open).collect();
        self.registered = s0.vamms.iter().map(|v| v.registered).collect();
    }
    fn post(&mut self, w: &World, st: &Step, r: &mut Report) {
        // pre-state flags as the monitor itself knows them
        let (m_paused, m_open, m_reg) = (self.paused, self.open.clone(), self.registered.clone());
        // update the shadow from accepted admin calls
        if st.out.ok {
            match &st.op {
                Op::Engine { msg: eng::ExecuteMsg::SetPause { pause }, .. } => self.paused = *pause,
                Op::Vamm { vamm, msg: vm::ExecuteMsg::SetOpen { open }, .. } => self.open[*vamm] = *open,
                Op::Insurance { msg: ins::ExecuteMsg::AddVamm { vamm }, .. } => {
                    if let Some(i) = w.vamm_idx(vamm) {
                        self.registered[i] = true;
                    }
                }
                Op::Insurance { msg: ins::ExecuteMsg::RemoveVamm { vamm }, .. } => {
                    if let Some(i) = w.vamm_idx(vamm) {
                        self.registered[i] = false;
                    }
                }
                Op::Insurance { msg: ins::ExecuteMsg::ShutdownVamms {}, .. } => {
                    for i in 0..self.open.len() {
                        if self.registered[i] && st.post.vamms[i].cfg_insurance == w.insurance.as_str() {
                            self.open[i] = false;
                        }
                    }
                }
                _ => {}
            }
            if matches!(st.op.kind(), "eng_set_pause" | "vamm_set_open" | "ins_add_vamm" | "ins_remove_vamm" | "ins_shutdown") {
                r.count("R0-admin-calls-cross-checked");
                self.cross_check(&st.post, r, st.seq, st.op.kind());
            }
        }
        let pre = &st.pre;
        let post = &st.post;
        // R4 registry well-formedness after every step
        let reg = &post.registry;
        let uniq: BTreeSet<&String> = reg.iter().collect();
        if uniq.len() != reg.len() || reg.len() > 3 {
            r.violation("C14", "R4-registry-shape", format!("R4|len={}|dups={}", reg.len(), reg.len() - uniq.len()), format!("registry {:?}", reg), st.seq);
        }
        let mut probe: Vec<String> = w.vamms.iter().map(|a| a.to_string()).collect();
        probe.push(w.engine.to_string());
        probe.push("alice".into());
        for a in probe {
            let isv = w.is_registered(&a);
            if isv != reg.contains(&a) {
                r.violation("C14", "R4-membership-query", "R4|isvamm".into(), format!("IsVamm({}) = {} but registry = {:?}", a, isv, reg), st.seq);
            }
        }
        if let Op::Insurance { msg, .. } = &st.op {
            r.eval();
            r.case(format!("{}|reg={}|{}", st.op.kind(), pre.registry.len(), outcome(&st.out)));
            if let ins::ExecuteMsg::AddVamm { .. } = msg {
                if pre.registry.len() >= 3 {
                    r.count("R4-add-at-capacity");
                }
            }
        }
        // R5 emergency shutdown
        if let Op::Insurance { sender, msg: ins::ExecuteMsg::ShutdownVamms {} } = &st.op {
            if *sender == pre.ins_owner {
                let closed_before: Vec<bool> = (0..w.vamms.len()).filter(|i| pre.vamms[*i].registered).map(|i| !pre.vamms[i].open).collect();
                let n_closed = closed_before.iter().filter(|b| **b).count();
                r.count("shutdowns-by-owner");
                r.case(format!("shutdown|registered={}|already_closed={}|{}", closed_before.len(), n_closed, outcome(&st.out)));
                for (i, v) in post.vamms.iter().enumerate() {
                    if v.registered && v.cfg_insurance == w.insurance.as_str() && v.open {
                        r.violation(
                            "C14",
                            "R5-shutdown-left-vamm-open",
                            format!(
                                "R5|already_closed={}|foreign_fund={}|{}",
                                n_closed.min(1),
                                (0..w.vamms.len()).any(|k| pre.vamms[k].registered && pre.vamms[k].cfg_insurance != w.insurance.as_str()) as u8,
                                outcome(&st.out)
                            ),
                            format!("after ShutdownVamms ({}; {}) registered vamm{} is still open; {} of {} registered were already closed", outcome(&st.out), st.out.err_text(), i, n_closed, closed_before.len()),
                            st.seq,
                        );
                        break;
                    }
                }
                r.sample_once(&format!("shutdown|already_closed={}", n_closed), json!({"op": short_op(&st.op), "open_before": pre.vamms.iter().map(|v| v.open).collect::<Vec<_>>(), "open_after": post.vamms.iter().map(|v| v.open).collect::<Vec<_>>(), "result": outcome(&st.out)}));
            }
        }
        let Some((_sender, msg, _)) = engine_msg(&st.op) else { return };
        let kind = st.op.kind();
        let vi = st.op.engine_vamm().and_then(|a| w.vamm_idx(a));
        let paused = m_paused;
        let trading = matches!(kind, "open" | "close" | "deposit" | "withdraw");
        let keeper = matches!(kind, "liquidate" | "pay_funding");
        if !trading && !keeper {
            return;
        }
        let _ = msg;
        r.eval();
        let (open, reg) = vi.map(|i| (m_open[i], m_reg[i])).unwrap_or((true, true));
        r.case(format!("paused={}|open={}|registered={}|{}|{}", paused, open, reg, kind, outcome(&st.out)));
        // R1 pause
        if paused && trading {
            r.count("R1-trading-while-paused");
            if st.out.ok {
                r.violation("C14", "R1-trading-succeeded-while-paused", format!("R1|{}", kind), format!("{} succeeded while the engine is paused", kind), st.seq);
            }
        }
        if paused && keeper {
            if st.out.ok {
                r.count("R1-keeper-ok-while-paused");
            } else if st.out.err_text().contains("paused") {
                r.violation("C14", "R1-keeper-blocked-by-pause", format!("R1k|{}", kind), format!("{} refused with the pause error", kind), st.seq);
            }
        }
        // R2 closed market
        if !open && matches!(kind, "open" | "close" | "liquidate" | "withdraw" | "pay_funding") {
            r.count("R2-ops-on-closed-vamm");
            if st.out.ok {
                r.violation("C14", "R2-op-succeeded-on-closed-vamm", format!("R2|{}", kind), format!("{} succeeded on a closed vAMM", kind), st.seq);
            }
        }
        // R3 unregistered market
        if !reg && matches!(kind, "open" | "liquidate" | "withdraw" | "pay_funding") {
            r.count("R3-ops-on-unregistered-vamm");
            if st.out.ok {
                r.violation("C14", "R3-op-succeeded-on-unregistered-vamm", format!("R3|{}", kind), format!("{} succeeded on an unregistered vAMM", kind), st.seq);
            }
        }
    }
}

// ------------------------------------------------------------------------------------------
// C15

#[derive(Default)]
pub struct C15 {
    band: BandTracker,
    whole_quote: Option<u128>,
    trades_in_block: BTreeMap<usize, (u64, u32)>,
}

fn dist_bucket(spot: u128, lo: u128, up: u128) -> &'static str {
    if spot > up || spot < lo {
        "outside"
    } else {
        let e = (up - spot).min(spot - lo);
        if e <= 2 {
            "edge<=2"
        } else if e <= (up - lo) / 20 + 2 {
            "near"
        } else {
            "inside"
        }
    }
}

impl Monitor for C15 {
    fn prop(&self) -> &'static str {
        "C15"
    }
    fn begin(&mut self, _w: &World, s0: &Snap, _r: &mut Report) {
        self.band.begin(s0);
        self.trades_in_block.clear();
    }
    fn pre(&mut self, w: &World, op: &Op, pre: &Snap, _r: &mut Report) {
        self.whole_quote = None;
        if let Some((sender, eng::ExecuteMsg::ClosePosition { vamm, .. }, _)) = engine_msg(op) {
            if let Some(vi) = w.vamm_idx(vamm) {
                if let Some(p) = pre.pos(vi, sender) {
                    // the true closing direction: a long sells base into the curve, a short buys it back
                    self.whole_quote = w.output_amount(vi, p.long_dir, p.size.unsigned_abs()).ok();
                }
            }
        }
    }
    fn post(&mut self, w: &World, st: &Step, r: &mut Report) {
        let res = self.check(w, st, r);
        self.band.observe(&st.pre, &st.post);
        for (i, (a, b)) in st.pre.vamms.iter().zip(st.post.vamms.iter()).enumerate() {
            if a.q != b.q || a.b != b.b {
                let e = self.trades_in_block.entry(i).or_insert((st.post.height, 0));
                if e.0 != st.post.height {
                    *e = (st.post.height, 0);
                }
                e.1 += 1;
            }
        }
        res
    }
}

impl C15 {
    fn check(&mut self, w: &World, st: &Step, r: &mut Report) {
        let Some((sender, msg, _)) = engine_msg(&st.op) else { return };
        let Some(vi) = st.op.engine_vamm().and_then(|a| w.vamm_idx(a)) else { return };
        let (a, b) = (&st.pre.vamms[vi], &st.post.vamms[vi]);
        if a.fluct == 0 {
            return;
        }
        let d = a.decimals;
        let (lo, up) = self.band.bounds(vi, st.pre.height, a.fluct, d);
        let nth = self.trades_in_block.get(&vi).filter(|e| e.0 == st.pre.height).map(|e| e.1).unwrap_or(0);
        let drift = if a.spot > self.band.reference(vi, st.pre.height) { "up" } else if a.spot < self.band.reference(vi, st.pre.height) { "down" } else { "flat" };
        match msg {
            eng::ExecuteMsg::OpenPosition { side, .. } => {
                let side_s = if *side == eng::Side::Buy { "buy" } else { "sell" };
                if !st.out.ok {
                    if st.out.err_text().contains("position failure") || st.out.err_text().contains("fluctuation") {
                        r.eval();
                        r.count("opens-rejected-by-vamm");
                        r.case(format!("open-rejected|{}|{}|pre={}|nth={}", side_s, drift, dist_bucket(a.spot, lo, up), nth.min(3)));
                    }
                    return;
                }
                let holds = st.post.pos(vi, sender).map(|p| p.size != 0).unwrap_or(false);
                if !holds {
                    return;
                }
                r.eval();
                r.count("opens-under-band");
                let bucket = dist_bucket(b.spot, lo, up);
                if bucket == "edge<=2" {
                    r.count("opens-at-edge");
                }
                r.case(format!("open|{}|{}|post={}|nth={}|{}", side_s, drift, bucket, nth.min(3), reply_path(w, &st.out)));
                if b.spot > up + 1 || b.spot + 1 < lo {
                    r.violation(
                        "C15",
                        "R1-open-left-band",
                        format!("R1|{}|{}", side_s, reply_path(w, &st.out)),
                        format!("spot {} after OpenPosition outside [{}, {}] (reference {}, limit {})", b.spot, lo, up, self.band.reference(vi, st.pre.height), a.fluct),
                        st.seq,
                    );
                } else if a.spot > up + 1 || a.spot + 1 < lo {
                    r.violation(
                        "C15",
                        "R2-open-accepted-outside-band",
                        format!("R2|{}", side_s),
                        format!("OpenPosition accepted while spot {} was already outside [{}, {}]", a.spot, lo, up),
                        st.seq,
                    );
                }
                if bucket != "inside" {
                    r.sample_once(&format!("open|{}|{}", side_s, bucket), json!({"op": short_op(&st.op), "reference": self.band.reference(vi, st.pre.height).to_string(), "band": [lo.to_string(), up.to_string()], "spot_before": a.spot.to_string(), "spot_after": b.spot.to_string()}));
                }
            }
            eng::ExecuteMsg::ClosePosition { .. } => {
                if !st.out.ok {
                    return;
                }
                let partial_ratio = st.pre.eng.partial;
                if partial_ratio >= st.pre.eng.decimals {
                    return;
                }
                let Some(p0) = st.pre.pos(vi, sender) else { return };
                let abs0 = p0.size.unsigned_abs();
                let path = reply_path(w, &st.out);
                r.eval();
                // would the whole close have stayed inside? evaluated in the true closing direction
                let whole_inside: Option<bool> = self.whole_quote.and_then(|q| {
                    let (qa, ba) = if p0.long_dir { (a.q.checked_sub(q)?, a.b.checked_add(abs0)?) } else { (a.q.checked_add(q)?, a.b.checked_sub(abs0)?) };
                    if ba == 0 {
                        return None;
                    }
                    let price = Big::u(qa).mul(Big::u(d)).div(Big::u(ba)).to_u128()?;
                    Some(price <= up && price >= lo)
                });
                let long_s = if p0.long_dir { "long" } else { "short" };
                // when nothing was rounded anywhere (reference price, both limits and the price after the whole close are exact
                // quotients) the closed band of the statement is unambiguous, edges included
                let band_exact = self.band.band_is_exact(vi, st.pre.height, a.fluct, d);
                let whole_price: Option<(u128, bool)> = self.whole_quote.and_then(|q| {
                    let (qa, ba) = if p0.long_dir { (a.q.checked_sub(q)?, a.b.checked_add(abs0)?) } else { (a.q.checked_add(q)?, a.b.checked_sub(abs0)?) };
                    if ba == 0 {
                        return None;
                    }
                    let price = Big::u(qa).mul(Big::u(d)).div(Big::u(ba)).to_u128()?;
                    Some((price, Big::u(qa).mul(Big::u(d)).sub(Big::u(price).mul(Big::u(ba))).is_zero()))
                });
                let all_exact = band_exact && matches!(whole_price, Some((_, true)));
                if all_exact && matches!(whole_price, Some((p, _)) if p == lo || p == up) {
                    r.count("closes-whose-whole-close-lands-exactly-on-the-band-edge");
                }
                if path == "close_position" {
                    r.count("whole-closes-under-band");
                    r.case(format!("close-whole|{}|{}|post={}|nth={}", long_s, drift, dist_bucket(b.spot, lo, up), nth.min(3)));
                    let edge_tol = if all_exact { 0 } else { 1 };
                    if b.spot > up + edge_tol || b.spot + edge_tol < lo {
                        r.violation(
                            "C15",
                            "R3a-whole-close-left-band",
                            format!("R3a|{}", long_s),
                            format!("whole close of a {} left spot {} outside [{}, {}] (reference {})", long_s, b.spot, lo, up, self.band.reference(vi, st.pre.height)),
                            st.seq,
                        );
                    }
                } else if path == "partial_close_position" {
                    r.count("partial-closes-under-band");
                    r.case(format!("close-partial|{}|{}|whole_inside={:?}|nth={}", long_s, drift, whole_inside, nth.min(3)));
                    let want = Big::u(abs0).mul(Big::u(partial_ratio)).div(Big::u(st.pre.eng.decimals));
                    let abs1 = st.post.pos(vi, sender).map(|p| p.size.unsigned_abs()).unwrap_or(0);
                    let closed = abs0.saturating_sub(abs1);
                    // the partial close is sized in quote (the quote of the fraction), so the base actually closed may differ by rounding
                    // tolerance: the base value of two quote units (+2)
                    let tol = (2 * (a.b / a.q.max(1) + 1) + 2).max(abs0 / 1_000_000);
                    if !Big::u(closed).within(want, tol) {
                        r.violation(
                            "C15",
                            "R3b-partial-close-fraction",
                            format!("R3b|fraction|{}", long_s),
                            format!("partial close reduced |size| {} -> {} (closed {}), configured fraction gives {}", abs0, abs1, closed, want),
                            st.seq,
                        );
                    }
                    if whole_inside == Some(true) {
                        // margin of one raw unit at the edge: only flag when the whole close is clearly inside
                        let clearly = whole_price.map(|(price, _)| (price + 2 <= up && price >= lo + 2) || all_exact);
                        if clearly == Some(true) {
                            r.violation(
                                "C15",
                                "R3b-partial-although-whole-fits",
                                format!("R3b|needless|{}", long_s),
                                format!("position was only partially closed although closing it whole keeps the price inside [{}, {}]", lo, up),
                                st.seq,
                            );
                        }
                    }
                    r.sample_once(&format!("close-partial|{}", long_s), json!({"op": short_op(&st.op), "band": [lo.to_string(), up.to_string()], "size_before": p0.size.to_string(), "size_after": abs1.to_string(), "whole_close_inside": whole_inside}));
                }
            }
            _ => {}
        }
    }
}

// ------------------------------------------------------------------------------------------
// C16

#[derive(Default)]
pub struct C16 {
    /// per vamm: height of the last block in which a liquidation succeeded
    liq_block: BTreeMap<usize, u64>,
    /// the monitor's OWN record of the block in which each (vamm, trader) position was last traded by its
    /// owner (never read from the stored position, whose stamp is part of what is being checked)
    touched: BTreeMap<(usize, String), u64>,
}

impl Monitor for C16 {
    fn prop(&self) -> &'static str {
        "C16"
    }
    fn begin(&mut self, _w: &World, _s0: &Snap, _r: &mut Report) {
        self.liq_block.clear();
        self.touched.clear();
    }
    fn post(&mut self, w: &World, st: &Step, r: &mut Report) {
        let Some((sender, msg, _)) = engine_msg(&st.op) else { return };
        let Some(vi) = st.op.engine_vamm().and_then(|a| w.vamm_idx(a)) else { return };
        let h = st.pre.height;
        // a position record that disappears (whole close, full liquidation) takes its history with it
        let gone: Vec<(usize, String)> = self.touched.keys().filter(|k| st.post.pos(k.0, &k.1).is_none()).cloned().collect();
        match msg {
            eng::ExecuteMsg::OpenPosition { .. } | eng::ExecuteMsg::ClosePosition { .. } => {
                let liq_here = self.liq_block.get(&vi) == Some(&h);
                let touched = st.pre.pos(vi, sender).is_some() && self.touched.get(&(vi, sender.to_string())) == Some(&h);
                let stamp = st.pre.pos(vi, sender).map(|p| p.block == h).unwrap_or(false);
                if stamp != touched {
                    r.count("stored-stamp-differs-from-observed-trading");
                }
                let restricted = liq_here && touched;
                let has_pos = st.pre.pos(vi, sender).is_some();
                let mode_err = st.out.err_text().contains("Only one action allowed");
                r.eval();
                r.case(format!("{}|liq_in_block={}|touched={}|haspos={}|{}", st.op.kind(), liq_here, touched, has_pos, if st.out.ok { "ok" } else if mode_err { "restricted" } else { "other-err" }));
                if restricted {
                    r.count("restricted-attempts");
                    if st.out.ok {
                        r.violation(
                            "C16",
                            "R1-second-action-after-liquidation",
                            format!("R1|{}|{}", st.op.kind(), reply_path(w, &st.out)),
                            format!("{} by {} succeeded in block {} after a liquidation on vamm{} although its position was already updated in this block", st.op.kind(), sender, h, vi),
                            st.seq,
                        );
                    }
                    r.sample_once(&format!("restricted|{}", st.op.kind()), json!({"op": short_op(&st.op), "block": h, "result": st.out.err_text()}));
                } else {
                    if liq_here {
                        r.count("unrestricted-in-liquidation-block");
                    }
                    if mode_err {
                        r.violation(
                            "C16",
                            "R2-restricted-without-cause",
                            format!("R2|{}|liq_in_block={}|touched={}", st.op.kind(), liq_here, touched),
                            format!("{} by {} refused with the restriction error in block {} (liquidation in block: {}, position touched in block: {})", st.op.kind(), sender, h, liq_here, touched),
                            st.seq,
                        );
                    }
                }
            }
            eng::ExecuteMsg::Liquidate { trader, .. } => {
                if st.out.ok {
                    self.liq_block.insert(vi, h);
                    r.count("liquidations");
                    r.case(format!("liquidation|{}", reply_path(w, &st.out)));
                } else if st.out.err_text().contains("Only one action allowed") {
                    // the restriction is about a trader opening, modifying or closing his own position again; a liquidation
                    // is none of these, and its sender is not restricted by what happened to somebody else's position
                    let liq_here = self.liq_block.get(&vi) == Some(&h);
                    let victim_touched = self.touched.get(&(vi, trader.trim().to_string())) == Some(&h);
                    r.violation(
                        "C16",
                        "R2-restricted-without-cause",
                        format!("R2|liquidate|liq_in_block={}|victim_touched={}", liq_here, victim_touched),
                        format!("Liquidate of {} by {} refused with the restriction error in block {}", trader, sender, h),
                        st.seq,
                    );
                }
                if self.liq_block.get(&vi) == Some(&h) && st.pre.pos(vi, trader.trim()).is_some() {
                    r.count("liquidation-attempts-in-a-liquidation-block");
                }
            }
            _ => {}
        }
        if st.out.ok && matches!(msg, eng::ExecuteMsg::OpenPosition { .. } | eng::ExecuteMsg::ClosePosition { .. }) && st.post.pos(vi, sender).is_some() {
            self.touched.insert((vi, sender.to_string()), h);
        }
        for k in gone {
            self.touched.remove(&k);
        }
    }
}

// ------------------------------------------------------------------------------------------
// C17 (engine level; the vAMM-level rules live in the W-VAMM workload monitor)

#[derive(Default)]
pub struct C17 {
    /// result of the same call with limit 0 on the same state: (ok, executed swap legs)
    dry: Option<(bool, Vec<SwapEv>)>,
    quote: Option<u128>,
    /// OpenPosition only: is this trade one that opens, increases or reduces (limit pinned) rather than one that
    /// reverses the position? Decided by the monitor from the pre-state - an opposite-side order reduces iff its notional
    /// is below the position's spot value (vAMM OutputAmount for the whole size) - not from the path the engine took
    pinned: Option<bool>,
    /// the monitor's own record of the price at the end of the previous block (for deciding, independently of the
    /// engine, whether a ClosePosition is one that closes the whole position)
    band: BandTracker,
}

fn zero_limit(op: &Op) -> Option<Op> {
    match op {
        Op::Engine { sender, msg, funds } => match msg {
            eng::ExecuteMsg::OpenPosition { vamm, side, margin_amount, leverage, base_asset_limit } if !base_asset_limit.is_zero() => Some(Op::Engine {
                sender: sender.clone(),
                msg: eng::ExecuteMsg::OpenPosition { vamm: vamm.clone(), side: side.clone(), margin_amount: *margin_amount, leverage: *leverage, base_asset_limit: 0u128.into() },
                funds: *funds,
            }),
            eng::ExecuteMsg::ClosePosition { vamm, quote_asset_limit } if !quote_asset_limit.is_zero() => Some(Op::Engine {
                sender: sender.clone(),
                msg: eng::ExecuteMsg::ClosePosition { vamm: vamm.clone(), quote_asset_limit: 0u128.into() },
                funds: *funds,
            }),
            _ => None,
        },
        _ => None,
    }
}

impl Monitor for C17 {
    fn prop(&self) -> &'static str {
        "C17"
    }
    fn begin(&mut self, _w: &World, s0: &Snap, _r: &mut Report) {
        self.band.begin(s0);
    }
    fn dry(&mut self, w: &mut World, op: &Op, _pre: &Snap, _r: &mut Report) {
        self.dry = None;
        if let Some(z) = zero_limit(op) {
            let cp = w.checkpoint();
            let out = apply(w, &z, None);
            let legs = swap_events(w, &out);
            w.restore(cp);
            self.dry = Some((out.ok, legs));
        }
    }
    fn pre(&mut self, w: &World, op: &Op, pre: &Snap, _r: &mut Report) {
        self.quote = None;
        self.pinned = None;
        let Some((sender, msg, _)) = engine_msg(op) else { return };
        match msg {
            eng::ExecuteMsg::OpenPosition { vamm, side, margin_amount, leverage, .. } => {
                if let Some(vi) = w.vamm_idx(vamm) {
                    let n = Big::u(margin_amount.u128()).mul(Big::u(leverage.u128())).div(Big::u(pre.eng.decimals)).to_u128().unwrap_or(0);
                    let buy = *side == eng::Side::Buy;
                    self.quote = w.input_amount(vi, buy, n).ok();
                    self.pinned = match pre.pos(vi, sender) {
                        None => Some(true),
                        Some(p) if p.size == 0 || p.long_dir == buy => Some(true),
                        Some(p) => w.output_amount(vi, p.long_dir, p.size.unsigned_abs()).ok().map(|value| n < value),
                    };
                }
            }
            eng::ExecuteMsg::ClosePosition { vamm, .. } => {
                if let Some(vi) = w.vamm_idx(vamm) {
                    if let Some(p) = pre.pos(vi, sender) {
                        self.quote = w.output_amount(vi, p.long_dir, p.size.unsigned_abs()).ok();
                    }
                }
            }
            _ => {}
        }
    }
    fn post(&mut self, w: &World, st: &Step, r: &mut Report) {
        self.check(w, st, r);
        self.band.observe(&st.pre, &st.post);
    }
}

impl C17 {
    fn check(&mut self, w: &World, st: &Step, r: &mut Report) {
        let Some((_sender, msg, _)) = engine_msg(&st.op) else { return };
        let Some(vi) = st.op.engine_vamm().and_then(|a| w.vamm_idx(a)) else { return };
        let path = reply_path(w, &st.out);
        let legs: Vec<SwapEv> = swap_events(w, &st.out).into_iter().filter(|s| s.vamm == vi).collect();
        match msg {
            eng::ExecuteMsg::OpenPosition { side, base_asset_limit, margin_amount, leverage, .. } => {
                let buy = *side == eng::Side::Buy;
                let l = base_asset_limit.u128();
                let n = Big::u(margin_amount.u128()).mul(Big::u(leverage.u128())).div(Big::u(st.pre.eng.decimals)).to_u128().unwrap_or(0);
                // R1 at the engine boundary: the quote equals what the swap exchanged, on the requested side
                if st.out.ok && path == "update_position" && legs.len() == 1 {
                    r.eval();
                    r.count("R1-open-quote-vs-execution");
                    if let Some(q) = self.quote {
                        if legs[0].base != q || legs[0].quote != n || !legs[0].input {
                            r.violation(
                                "C17",
                                "R1-quote-differs-from-execution",
                                format!("R1|open|{}", if buy { "buy" } else { "sell" }),
                                format!("InputAmount quoted {} base for {} quote; executed {} base for {} quote", q, n, legs[0].base, legs[0].quote),
                                st.seq,
                            );
                        }
                    }
                }
                if l == 0 {
                    return;
                }
                let Some(q) = self.quote else { return };
                let Some((dry_ok, dry_legs)) = self.dry.clone() else { return };
                // the limit is pinned only for trades that open, increase or reduce; which of them this is follows from the
                // pre-state (see `pinned`), and the trade must be one that goes through with limit 0 on this very state
                let _ = dry_legs;
                if self.pinned != Some(true) || !dry_ok {
                    r.count("limit-on-reversal-or-failing-trade(not pinned)");
                    return;
                }
                let satisfied = if buy { q >= l } else { q <= l };
                let rel = if q == l { "=" } else if (buy && q > l) || (!buy && q < l) { "slack" } else { "violated" };
                r.eval();
                r.count("R3-open-limits");
                r.case(format!("open|{}|limit{}|{}", if buy { "buy" } else { "sell" }, rel, outcome(&st.out)));
                if !satisfied && st.out.ok {
                    r.violation(
                        "C17",
                        "R3-limit-ignored",
                        format!("R3|open|{}|ignored", if buy { "buy" } else { "sell" }),
                        format!("OpenPosition {} with limit {} executed although the trade exchanges {} base (path {}, position before: {:?})", if buy { "buy" } else { "sell" }, l, q, path, st.pre.pos(vi, _sender).map(|p| (p.long_dir, p.size, p.notional))),
                        st.seq,
                    );
                }
                if satisfied && !st.out.ok {
                    r.violation(
                        "C17",
                        "R3-limit-rejected-although-satisfied",
                        format!("R3|open|{}|rejected|{}", if buy { "buy" } else { "sell" }, rel),
                        format!("OpenPosition with limit {} failed ({}) although the trade exchanges {} base and succeeds with limit 0", l, st.out.err_text(), q),
                        st.seq,
                    );
                }
                r.sample_once(&format!("open|limit{}", rel), json!({"op": short_op(&st.op), "quoted_base": q.to_string(), "limit": l.to_string(), "result": outcome(&st.out)}));
            }
            eng::ExecuteMsg::ClosePosition { quote_asset_limit, .. } => {
                let l = quote_asset_limit.u128();
                let Some(p0) = st.pre.pos(vi, st.op.sender().unwrap_or("")) else { return };
                if st.out.ok && path == "close_position" && legs.len() == 1 {
                    r.eval();
                    r.count("R1-close-quote-vs-execution");
                    if let Some(q) = self.quote {
                        if legs[0].quote != q || legs[0].base != p0.size.unsigned_abs() || legs[0].input {
                            r.violation(
                                "C17",
                                "R1-quote-differs-from-execution",
                                format!("R1|close|{}", if p0.long_dir { "long" } else { "short" }),
                                format!("OutputAmount quoted {} for {} base; executed {} for {}", q, p0.size.unsigned_abs(), legs[0].quote, legs[0].base),
                                st.seq,
                            );
                        }
                    }
                }
                if l == 0 {
                    return;
                }
                let Some(q) = self.quote else { return };
                let Some((dry_ok, dry_legs)) = self.dry.clone() else { return };
                // pinned for whole-position closes only. Whether this close is one is decided by the monitor, not read off what
                // the engine does: a close is partial only when a partial ratio below one is configured and closing the whole
                // position would take the price out of the band around the previous block's closing price (the monitor's own
                // record of it); within two raw units of a band limit the case is left undecided
                let a = &st.pre.vamms[vi];
                let engine_whole = dry_legs.len() == 1 && !dry_legs[0].input && dry_legs[0].base == p0.size.unsigned_abs();
                let whole: Option<bool> = if a.fluct == 0 || st.pre.eng.partial >= st.pre.eng.decimals {
                    Some(true)
                } else {
                    let (lo, up) = self.band.bounds(vi, st.pre.height, a.fluct, a.decimals);
                    let abs0 = p0.size.unsigned_abs();
                    let after = if p0.long_dir { a.q.checked_sub(q).zip(a.b.checked_add(abs0)) } else { a.q.checked_add(q).zip(a.b.checked_sub(abs0)) };
                    match after {
                        Some((qa, ba)) if ba > 0 => match Big::u(qa).mul(Big::u(a.decimals)).div(Big::u(ba)).to_u128() {
                            Some(price) if price + 2 <= up && price >= lo + 2 => Some(true),
                            Some(price) if price > up + 2 || price + 2 < lo => Some(false),
                            _ => None,
                        },
                        _ => None,
                    }
                };
                if whole == Some(true) && dry_ok && !engine_whole {
                    r.count("closes-the-engine-made-partial-although-the-whole-close-stays-in-the-band");
                }
                if whole != Some(true) || !dry_ok {
                    r.count("limit-on-partial-or-failing-close(not pinned)");
                    return;
                }
                // closing a long receives quote (>= limit); closing a short pays quote (<= limit)
                let satisfied = if p0.long_dir { q >= l } else { q <= l };
                let rel = if q == l { "=" } else if satisfied { "slack" } else { "violated" };
                r.eval();
                r.count("R3-close-limits");
                r.case(format!("close|{}|limit{}|{}", if p0.long_dir { "long" } else { "short" }, rel, outcome(&st.out)));
                if !satisfied && st.out.ok {
                    r.violation("C17", "R3-limit-ignored", format!("R3|close|{}|ignored", if p0.long_dir { "long" } else { "short" }), format!("ClosePosition with limit {} executed although it exchanges {} quote", l, q), st.seq);
                }
                if satisfied && !st.out.ok {
                    r.violation(
                        "C17",
                        "R3-limit-rejected-although-satisfied",
                        format!("R3|close|{}|rejected|{}", if p0.long_dir { "long" } else { "short" }, rel),
                        format!("ClosePosition with limit {} failed ({}) although it exchanges {} quote and succeeds with limit 0", l, st.out.err_text(), q),
                        st.seq,
                    );
                }
                r.sample_once(&format!("close|limit{}", rel), json!({"op": short_op(&st.op), "quoted_quote": q.to_string(), "limit": l.to_string(), "result": outcome(&st.out)}));
            }
            _ => {}
        }
    }
}

// ------------------------------------------------------------------------------------------
// C18 (vAMM part): TWAP within observed prices, snapshot discipline

#[derive(Default)]
pub struct C18 {
    /// per vamm: segments (height, start time, spot in effect from then on)
    tl: Vec<Vec<(u64, u64, u128)>>,
    change_blocks: Vec<u64>,
    overwrite_seen: bool,
    /// per vamm: final reserves of every block in which the vAMM executed a swap (and of the deployment block)
    fin: Vec<BTreeMap<u64, (u128, u128)>>,
}

/// A stored reserve snapshot, recognised by shape and not by key or field names: a JSON object (at any nesting
/// depth of any stored value) whose fields are all scalars, without booleans or non-numeric strings, with two or
/// three unsigned decimal strings (the reserves, possibly a nanosecond time) and exactly one integer that is a block
/// height of this run (deployment height ..= current height).
struct RawSnap {
    block_height: u64,
    values: Vec<u128>,
}

impl RawSnap {
    fn holds(&self, q: u128, b: u128) -> bool {
        self.values.contains(&q) && self.values.contains(&b)
    }
}

fn find_raw_snaps(v: &serde_json::Value, lo: u64, hi: u64, out: &mut Vec<RawSnap>) {
    match v {
        serde_json::Value::Array(a) => a.iter().for_each(|x| find_raw_snaps(x, lo, hi, out)),
        serde_json::Value::Object(m) => {
            let mut strings: Vec<u128> = vec![];
            let mut heights: Vec<u64> = vec![];
            let mut scalar_only = true;
            for (_k, x) in m {
                match x {
                    serde_json::Value::String(t) => match t.parse::<u128>() {
                        Ok(n) => strings.push(n),
                        Err(_) => scalar_only = false,
                    },
                    serde_json::Value::Number(n) => {
                        if let Some(u) = n.as_u64() {
                            if u >= lo && u <= hi {
                                heights.push(u);
                            }
                        }
                    }
                    serde_json::Value::Object(_) | serde_json::Value::Array(_) => {
                        scalar_only = false;
                        find_raw_snaps(x, lo, hi, out);
                    }
                    _ => scalar_only = false,
                }
            }
            if scalar_only && heights.len() == 1 && (strings.len() == 2 || strings.len() == 3) && m.len() <= 5 {
                out.push(RawSnap { block_height: heights[0], values: strings });
            }
        }
        _ => {}
    }
}


impl Monitor for C18 {
    fn prop(&self) -> &'static str {
        "C18"
    }
    fn begin(&mut self, w: &World, s0: &Snap, _r: &mut Report) {
        self.tl = s0.vamms.iter().map(|v| vec![(w.deploy_height, w.deploy_time, v.spot)]).collect();
        self.change_blocks = vec![0; s0.vamms.len()];
        self.overwrite_seen = false;
        self.fin = s0.vamms.iter().map(|v| BTreeMap::from([(w.deploy_height, (v.q, v.b))])).collect();
    }
    fn post(&mut self, w: &World, st: &Step, r: &mut Report) {
        let now = st.post.time;
        let swapped: BTreeSet<usize> = swap_events(w, &st.out).iter().map(|s| s.vamm).collect();
        for (i, (a, b)) in st.pre.vamms.iter().zip(st.post.vamms.iter()).enumerate() {
            if a.q != b.q || a.b != b.b || swapped.contains(&i) {
                if st.post.height == self.tl[i][0].0 {
                    // (a trade in the deployment block overwrites the initial snapshot)
                    self.fin[i].clear();
                }
                self.fin[i].insert(st.post.height, (b.q, b.b));
                let last = *self.tl[i].last().unwrap();
                if last.0 == st.post.height && self.tl[i].len() > 1 {
                    // same block: the block's final reserves replace the earlier ones
                    let n = self.tl[i].len();
                    self.tl[i][n - 1].2 = b.spot;
                    self.overwrite_seen = true;
                    r.count("same-block-overwrites");
                } else if last.0 == st.post.height {
                    // trade in the deployment block itself: the single initial snapshot is overwritten
                    self.tl[i][0].2 = b.spot;
                    self.overwrite_seen = true;
                } else {
                    self.tl[i].push((st.post.height, now, b.spot));
                    self.change_blocks[i] += 1;
                }
            }
        }
        // query TWAPs of three interval classes after every reserve change or block advance
        let interesting = matches!(st.op, Op::Advance { .. }) || st.pre.vamms.iter().zip(st.post.vamms.iter()).any(|(a, b)| a.q != b.q);
        if !interesting {
            return;
        }
        for i in 0..w.vamms.len() {
            let tl = &self.tl[i];
            let hist = now.saturating_sub(tl[0].1);
            let ivs: [u64; 4] = [st.post.vamms[i].twap_interval, 900, (hist / 3).max(1), hist + 1000];
            for iv in ivs {
                let Ok(twap) = w.q_vamm_u(i, &vm::QueryMsg::TwapPrice { interval: iv }) else { continue };
                let base = now.saturating_sub(iv);
                // prices in effect during [base, now]
                let mut lo = u128::MAX;
                let mut hi = 0u128;
                let mut n_in = 0;
                for (k, seg) in tl.iter().enumerate() {
                    let end = tl.get(k + 1).map(|s| s.1).unwrap_or(u64::MAX);
                    if seg.1 <= now && end >= base {
                        lo = lo.min(seg.2);
                        hi = hi.max(seg.2);
                        n_in += 1;
                    }
                }
                if n_in == 0 {
                    continue;
                }
                r.eval();
                let class = if iv > hist { "longer" } else if iv == hist { "equal" } else { "shorter" };
                r.case(format!("twap|{}|segments={}|overwrite={}", class, (n_in as u32).min(5), self.overwrite_seen));
                r.count("twap-queries");
                if n_in > 75 {
                    r.count("twap-queries-over-windows-with-more-than-75-snapshots");
                }
                if twap + 1 < lo || twap > hi + 1 {
                    r.violation(
                        "C18",
                        "R1-twap-outside-observed-prices",
                        format!("R1|{}|segments={}", class, (n_in as u32).min(3)),
                        format!("vamm{} TWAP over {}s = {} outside [{}, {}] of the {} prices in effect", i, iv, twap, lo, hi, n_in),
                        st.seq,
                    );
                }
                if lo == hi {
                    r.count("twap-flat-windows");
                }
                // R4: the value itself, against the time-weighted average of the monitor's one-price-per-block
                // timeline (one raw unit of slack per segment for a different but legitimate rounding order)
                if iv > 0 {
                    if let Some(want) = reference_twap(tl, now, iv) {
                        r.count("R4-twap-reference-comparisons");
                        if lo != hi {
                            r.count("R4-twap-reference-comparisons-over-changing-prices");
                        }
                        let slack = n_in as u128 + 1;
                        if twap.abs_diff(want) > slack {
                            r.violation(
                                "C18",
                                "R4-twap-not-the-average-of-final-block-prices",
                                format!("R4|{}|segments={}", class, (n_in as u32).min(3)),
                                format!("vamm{} TWAP over {}s = {} but the time-weighted average of the {} end-of-block prices in the window is {}", i, iv, twap, n_in, want),
                                st.seq,
                            );
                        }
                    }
                }
                if n_in > 1 && lo != hi {
                    r.sample_once(&format!("twap|{}", class), json!({"vamm": i, "interval": iv, "twap": twap.to_string(), "min": lo.to_string(), "max": hi.to_string(), "segments": n_in}));
                }
            }
            // raw snapshot discipline
            let dump = w.raw_dump(&w.vamms[i]);
            let mut found: Vec<RawSnap> = vec![];
            for (_k, v) in dump {
                if let Ok(j) = serde_json::from_slice::<serde_json::Value>(&v) {
                    find_raw_snaps(&j, self.tl[i][0].0, st.post.height, &mut found);
                }
            }
            let heights: Vec<u64> = found.iter().map(|s| s.block_height).collect();
            let hmax = heights.iter().max().cloned();
            if heights.is_empty() {
                r.inconclusive("no raw reserve snapshots found".into());
                continue;
            }
            r.count("snapshot-audits");
            let uniq: BTreeSet<u64> = heights.iter().cloned().collect();
            if uniq.len() != heights.len() {
                r.violation("C18", "R2-two-snapshots-in-one-block", "R2|dup".into(), format!("vamm{} snapshot heights {:?}", i, heights), st.seq);
            }
            if heights.len() as u64 > self.change_blocks[i] + 1 {
                r.violation("C18", "R2-too-many-snapshots", "R2|count".into(), format!("vamm{} has {} snapshots for {} blocks with swaps", i, heights.len(), self.change_blocks[i]), st.seq);
            }
            // every block in which the vAMM traded has exactly one snapshot, holding that block's final reserves
            for sn in &found {
                let h = sn.block_height;
                match self.fin[i].get(&h) {
                    Some((fq, fb)) if sn.holds(*fq, *fb) => {}
                    Some((fq, fb)) => r.violation("C18", "R2-snapshot-not-final-reserves-of-its-block", "R2|not-final".into(), format!("vamm{} snapshot of block {} holds {:?} but the block ended with ({}, {})", i, h, sn.values, fq, fb), st.seq),
                    None => r.violation("C18", "R2-snapshot-of-a-block-without-trade", "R2|phantom".into(), format!("vamm{} has a snapshot for block {} in which it did not trade", i, h), st.seq),
                }
            }
            let have: BTreeSet<u64> = heights.iter().cloned().collect();
            if let Some(missing) = self.fin[i].keys().find(|h| !have.contains(h)) {
                r.violation("C18", "R2-block-without-snapshot", "R2|missing".into(), format!("vamm{} traded in block {} but has no snapshot for it ({} snapshots, {} blocks with trades)", i, missing, found.len(), self.fin[i].len()), st.seq);
            }
            for l in found.iter().filter(|s| Some(s.block_height) == hmax) {
                if !l.holds(st.post.vamms[i].q, st.post.vamms[i].b) {
                    r.violation("C18", "R2-latest-snapshot-stale", "R2|stale".into(), format!("vamm{} latest snapshot {:?} != reserves ({}, {})", i, l.values, st.post.vamms[i].q, st.post.vamms[i].b), st.seq);
                }
            }
        }
    }
}

// ------------------------------------------------------------------------------------------
// C20


/// every stored ratio within [0,1], maintenance <= initial, TWAP interval within bounds, registered vAMMs share the engine's decimals
fn bounds_violations(s: &Snap) -> Vec<String> {
    let d = s.eng.decimals;
    let mut bad: Vec<String> = vec![];
    let e = &s.eng;
    for (name, v) in [("initial", e.initial), ("maintenance", e.maint), ("partial", e.partial), ("liquidation_fee", e.liq_fee)] {
        if v > d {
            bad.push(format!("engine {} = {} > 1", name, v));
        }
    }
    if e.maint > e.initial {
        bad.push(format!("maintenance {} > initial {}", e.maint, e.initial));
    }
    for (i, v) in s.vamms.iter().enumerate() {
        for (name, x) in [("toll", v.toll), ("spread", v.spread), ("fluctuation", v.fluct)] {
            if x > v.decimals {
                bad.push(format!("vamm{} {} = {} > 1", i, name, x));
            }
        }
        if v.twap_interval < 60 || v.twap_interval > 604_800 {
            bad.push(format!("vamm{} twap interval {}", i, v.twap_interval));
        }
        if v.registered && v.decimals != d {
            bad.push(format!("vamm{} registered with decimals {} != engine {}", i, v.decimals, d));
        }
    }
    bad
}

#[derive(Default)]
pub struct C20 {
    /// the whitelist according to the ACCEPTED AddWhitelist / RemoveWhitelist calls (starting from what the engine
    /// reports when the history begins), not according to what the engine reports afterwards
    own_wl: Option<BTreeSet<String>>,
}

impl Monitor for C20 {
    fn prop(&self) -> &'static str {
        "C20"
    }
    fn post(&mut self, w: &World, st: &Step, r: &mut Report) {
        let post = &st.post;
        let d = post.eng.decimals;
        let own_wl = self.own_wl.get_or_insert_with(|| st.pre.eng.whitelist.iter().cloned().collect());
        if let (true, Op::Engine { msg, .. }) = (st.out.ok, &st.op) {
            match msg {
                eng::ExecuteMsg::AddWhitelist { address } => {
                    own_wl.insert(address.clone());
                    r.count("R0-whitelist-edits");
                }
                eng::ExecuteMsg::RemoveWhitelist { address } => {
                    own_wl.remove(address);
                    r.count("R0-whitelist-edits");
                }
                _ => {}
            }
        }
        let reported: BTreeSet<String> = post.eng.whitelist.iter().cloned().collect();
        if reported != *own_wl {
            r.violation(
                "C20",
                "R0-whitelist-not-as-edited",
                format!("R0|whitelist|{}", st.op.kind()),
                format!("engine reports whitelist {:?}, accepted edits say {:?}", reported, own_wl),
                st.seq,
            );
            // report once per divergence
            *own_wl = reported;
        }
        let own_wl = own_wl.clone();
        // R2 / R3 bounds after any step, attributed to the step that introduced the bad value
        let pre_bad = bounds_violations(&st.pre);
        let bad: Vec<String> = bounds_violations(post).into_iter().filter(|b| !pre_bad.contains(b)).collect();
        // R0: an accepted update stores exactly the provided fields and leaves the others alone
        if st.out.ok {
            let mut diffs: Vec<String> = vec![];
            let chk = |diffs: &mut Vec<String>, name: &str, provided: Option<u128>, before: u128, after: u128| {
                let want = provided.unwrap_or(before);
                if after != want {
                    diffs.push(format!("{}: provided {:?}, before {}, stored {}", name, provided, before, after));
                }
            };
            match &st.op {
                Op::Vamm { vamm, msg: vm::ExecuteMsg::UpdateConfig { base_asset_holding_cap, open_interest_notional_cap, toll_ratio, spread_ratio, fluctuation_limit_ratio, spot_price_twap_interval, .. }, .. } => {
                    let (a, b) = (&st.pre.vamms[*vamm], &st.post.vamms[*vamm]);
                    chk(&mut diffs, "holding_cap", base_asset_holding_cap.map(|x| x.u128()), a.holding_cap, b.holding_cap);
                    chk(&mut diffs, "oi_cap", open_interest_notional_cap.map(|x| x.u128()), a.oi_cap, b.oi_cap);
                    chk(&mut diffs, "toll", toll_ratio.map(|x| x.u128()), a.toll, b.toll);
                    chk(&mut diffs, "spread", spread_ratio.map(|x| x.u128()), a.spread, b.spread);
                    chk(&mut diffs, "fluctuation", fluctuation_limit_ratio.map(|x| x.u128()), a.fluct, b.fluct);
                    chk(&mut diffs, "twap_interval", spot_price_twap_interval.map(|x| x as u128), a.twap_interval as u128, b.twap_interval as u128);
                    if let Op::Vamm { msg: vm::ExecuteMsg::UpdateConfig { margin_engine, insurance_fund, pricefeed, .. }, .. } = &st.op {
                        for (name, provided, before, after) in [
                            ("margin_engine", margin_engine, &a.cfg_engine, &b.cfg_engine),
                            ("insurance_fund", insurance_fund, &a.cfg_insurance, &b.cfg_insurance),
                            ("pricefeed", pricefeed, &a.cfg_pricefeed, &b.cfg_pricefeed),
                        ] {
                            let want = provided.clone().unwrap_or_else(|| before.clone());
                            if *after != want {
                                diffs.push(format!("{}: provided {:?}, before {}, stored {}", name, provided, before, after));
                            }
                        }
                    }
                    r.count("R0-config-updates-cross-checked");
                }
                Op::Engine { msg: eng::ExecuteMsg::UpdateConfig { initial_margin_ratio, maintenance_margin_ratio, partial_liquidation_ratio, liquidation_fee, .. }, .. } => {
                    let (a, b) = (&st.pre.eng, &st.post.eng);
                    chk(&mut diffs, "initial", initial_margin_ratio.map(|x| x.u128()), a.initial, b.initial);
                    chk(&mut diffs, "maintenance", maintenance_margin_ratio.map(|x| x.u128()), a.maint, b.maint);
                    chk(&mut diffs, "partial", partial_liquidation_ratio.map(|x| x.u128()), a.partial, b.partial);
                    chk(&mut diffs, "liquidation_fee", liquidation_fee.map(|x| x.u128()), a.liq_fee, b.liq_fee);
                    if let Op::Engine { msg: eng::ExecuteMsg::UpdateConfig { owner, insurance_fund, fee_pool, .. }, .. } = &st.op {
                        for (name, provided, before, after) in [
                            ("owner", owner, &a.owner, &b.owner),
                            ("insurance_fund", insurance_fund, &a.insurance_fund, &b.insurance_fund),
                            ("fee_pool", fee_pool, &a.fee_pool, &b.fee_pool),
                        ] {
                            let want = provided.clone().unwrap_or_else(|| before.clone());
                            if *after != want {
                                diffs.push(format!("{}: provided {:?}, before {}, stored {}", name, provided, before, after));
                            }
                        }
                    }
                    r.count("R0-config-updates-cross-checked");
                }
                _ => {}
            }
            for dmsg in diffs {
                let name = dmsg.split(':').next().unwrap_or("").to_string();
                r.violation("C20", "R0-accepted-update-not-stored-as-given", format!("R0|{}|{}", st.op.kind(), name), dmsg, st.seq);
            }
        }
        if matches!(st.op.kind(), "eng_update_config" | "vamm_update_config" | "ins_add_vamm") {
            r.eval();
            r.count("config-updates");
            r.case(format!("{}|{}", st.op.kind(), outcome(&st.out)));
            if st.op.kind() == "ins_add_vamm" {
                if let Op::Insurance { msg: ins::ExecuteMsg::AddVamm { vamm }, .. } = &st.op {
                    if let Some(vi) = w.vamm_idx(vamm) {
                        if post.vamms[vi].decimals != d {
                            r.count("R3-mismatched-decimals-offered");
                        }
                    }
                }
            }
            if !st.out.ok {
                r.count("config-updates-rejected");
            }
        }
        for b in bad {
            let sig: String = b.chars().filter(|c| !c.is_ascii_digit()).collect();
            r.violation("C20", "R2-config-out-of-bounds", format!("R2|{}|{}", st.op.kind(), sig), b, st.seq);
        }
        // R5: the figure the cap is compared with must not forget exposure that is still open. A transaction lowers the
        // engine's open interest by at most what its exposure-reducing trade took out of the market: the quote amount Q the
        // vAMM exchanged for it or, where the engine books the position's own open notional instead, 2 x (the closed share
        // of the open notional) - Q (whichever is larger; both bookings occur in the pinned code); a second, re-opening leg
        // adds its quote amount. Transactions without a trade do not lower it at all. Over-counting is not reported.
        if st.out.ok {
            if let Some((sender, msg, _)) = engine_msg(&st.op) {
                let swaps = swap_events(w, &st.out);
                let subject: &str = match msg {
                    eng::ExecuteMsg::Liquidate { trader, .. } => trader.trim(),
                    _ => sender,
                };
                let (oi0, oi1) = (st.pre.eng.oi, post.eng.oi);
                if swaps.is_empty() {
                    r.count("R5-transactions-without-trade");
                    if oi1 < oi0 {
                        r.violation("C20", "R5-open-interest-forgets-open-exposure", format!("R5|no-trade|{}", st.op.kind()), format!("open interest {} -> {} in a transaction that traded nothing", oi0, oi1), st.seq);
                    }
                } else if let Some(vi) = st.op.engine_vamm().and_then(|a| w.vamm_idx(a.trim())) {
                    let path = reply_path(w, &st.out);
                    let s0 = st.pre.pos(vi, subject).map(|p| p.size).unwrap_or(0);
                    let s1 = post.pos(vi, subject).map(|p| p.size).unwrap_or(0);
                    let pure_increase = path == "update_position" && (s0 == 0 || ((s0 > 0) == (s1 > 0) && s1.unsigned_abs() >= s0.unsigned_abs()));
                    if let (false, Some(p0)) = (pure_increase, st.pre.pos(vi, subject).filter(|p| p.size != 0)) {
                        let first = &swaps[0];
                        let abs0 = p0.size.unsigned_abs();
                        let share = Big::u(p0.notional).mul(Big::u(first.base.min(abs0))).div(Big::u(abs0)).to_u128().unwrap_or(u128::MAX);
                        // which booking applies follows from the kind of trade: reductions, the closing leg of a reversal and partial
                        // closes take out the exchanged quote amount; only a whole close (and a liquidation, which this rule does
                        // not pin down further) may book the position's own open notional instead
                        let by_notional = path.starts_with("close_position") || path.contains("liquidation");
                        let allowed = if by_notional { first.quote.max(share.saturating_mul(2).saturating_sub(first.quote)) } else { first.quote }.saturating_add(2);
                        if !by_notional {
                            r.count("R5-exposure-reducing-trades-pinned-to-the-exchanged-quote");
                        }
                        let credit = if swaps.len() > 1 { swaps[1].quote } else { 0 };
                        let floor = oi0.saturating_sub(allowed).saturating_add(credit);
                        r.count("R5-exposure-reducing-trades");
                        if oi1 < floor {
                            r.violation(
                                "C20",
                                "R5-open-interest-forgets-open-exposure",
                                format!("R5|oi-delta|{}", path),
                                format!("open interest {} -> {} although the trade took only {} quote out of the market (closed share of the open notional {}, re-opened {})", oi0, oi1, first.quote, share, credit),
                                st.seq,
                            );
                        }
                    }
                }
            }
        }
        // R1 caps
        let Some((sender, eng::ExecuteMsg::OpenPosition { vamm, .. }, _)) = engine_msg(&st.op) else { return };
        if !st.out.ok {
            let t = st.out.err_text();
            if t.contains("exceeds cap") {
                r.eval();
                r.count("cap-rejections");
                r.case(format!("open-rejected|{}", if t.contains("open interest") { "oi" } else { "holding" }));
            }
            return;
        }
        let Some(vi) = w.vamm_idx(vamm) else { return };
        let vs = &st.pre.vamms[vi];
        let s0 = st.pre.pos(vi, sender).map(|p| p.size).unwrap_or(0);
        let s1 = st.post.pos(vi, sender).map(|p| p.size).unwrap_or(0);
        // R4: the figure the cap is compared with must actually count new exposure. A pure increase (fresh position or
        // same-side add, the `update_position` path) of notional N = floor(margin x leverage / D) raises the engine's
        // open interest by at least N; otherwise the cap of R1 bounds a number that no longer tracks what traders hold.
        if let Some((_, eng::ExecuteMsg::OpenPosition { margin_amount, leverage, .. }, _)) = engine_msg(&st.op) {
            let pure_increase = reply_path(w, &st.out) == "update_position" && s1 != 0 && (s0 == 0 || ((s0 > 0) == (s1 > 0) && s1.unsigned_abs() > s0.unsigned_abs()));
            if pure_increase {
                let n = Big::u(margin_amount.u128()).mul(Big::u(leverage.u128())).div(Big::u(d)).to_u128().unwrap_or(u128::MAX);
                r.count("R4-pure-increases");
                // only under-counting is reported: it is what lets exposure grow past the cap unnoticed (over-counting
                // errs on the side of the cap and is not something the property speaks about)
                if st.pre.eng.oi.checked_add(n).map(|want| post.eng.oi < want).unwrap_or(false) {
                    r.violation(
                        "C20",
                        "R4-open-interest-not-counting-increase",
                        "R4|oi-delta|update_position".to_string(),
                        format!("open interest {} -> {} after a pure increase of notional {} by {}", st.pre.eng.oi, post.eng.oi, n, sender),
                        st.seq,
                    );
                }
            }
        }
        if vs.oi_cap == 0 && vs.holding_cap == 0 {
            return;
        }
        let increasing = s1.unsigned_abs() > s0.unsigned_abs() || (s0 != 0 && s1 != 0 && (s0 > 0) != (s1 > 0));
        // (membership before this step: this step is an OpenPosition and cannot have edited the list)
        let wl = own_wl.contains(sender);
        r.eval();
        r.count("opens-under-caps");
        let oi_rel = if vs.oi_cap == 0 { "nocap" } else if post.eng.oi > vs.oi_cap { "over" } else if post.eng.oi == vs.oi_cap { "=" } else { "under" };
        let hc_rel = if vs.holding_cap == 0 { "nocap" } else if s1.unsigned_abs() > vs.holding_cap { "over" } else if s1.unsigned_abs() == vs.holding_cap { "=" } else { "under" };
        r.case(format!("open|inc={}|wl={}|oi={}|hold={}|{}", increasing, wl, oi_rel, hc_rel, reply_path(w, &st.out)));
        if wl {
            if oi_rel == "over" || hc_rel == "over" {
                r.count("whitelisted-over-cap-allowed");
            }
            return;
        }
        if increasing {
            if vs.oi_cap != 0 && post.eng.oi > vs.oi_cap {
                r.violation(
                    "C20",
                    "R1-open-interest-cap",
                    format!("R1|oi|{}", reply_path(w, &st.out)),
                    format!("open interest {} above cap {} after a position-increasing trade by non-whitelisted {}", post.eng.oi, vs.oi_cap, sender),
                    st.seq,
                );
            }
            if vs.holding_cap != 0 && s1.unsigned_abs() > vs.holding_cap {
                r.violation(
                    "C20",
                    "R1-holding-cap",
                    format!("R1|holding|{}", reply_path(w, &st.out)),
                    format!("|size| {} above holding cap {} after a position-increasing trade by non-whitelisted {}", s1.unsigned_abs(), vs.holding_cap, sender),
                    st.seq,
                );
            }
            r.sample_once(&format!("open|oi={}|hold={}", oi_rel, hc_rel), json!({"op": short_op(&st.op), "oi_after": post.eng.oi.to_string(), "oi_cap": vs.oi_cap.to_string(), "size_after": s1.to_string(), "holding_cap": vs.holding_cap.to_string()}));
        }
    }
}

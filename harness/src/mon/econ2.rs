//! C07 (bounded liquidation progress), C11 (funding), C12 (trading fees).
use super::calc::*;
use super::util::*;
use crate::big::Big;
use crate::ops::*;
use crate::world::*;
use margined_perp::margined_engine as eng;
use margined_perp::margined_vamm as vm;
use serde_json::json;

fn sgn(b: &Big) -> &'static str {
    match b.sign() {
        0 => "0",
        1 => "+",
        _ => "-",
    }
}

/// Monitor-side record of the per-block reference price of every vAMM: spot at the end of the
/// last earlier block in which the reserves changed.
#[derive(Default, Clone)]
pub struct BandTracker {
    /// per vamm: (height of the last block in which reserves changed, spot at the end of that block, reference for that block)
    cur: Vec<(u64, u128, u128)>,
    /// per vamm: whether (spot at the end of the last changing block, reference for that block) are exact quotients of
    /// the reserves they were observed on (no rounding in quote x 10^decimals / base)
    exact: Vec<(bool, bool)>,
}

fn exact_spot(q: u128, b: u128, d: u128) -> bool {
    b != 0 && Big::u(q).mul(Big::u(d)).sub(Big::u(q).mul(Big::u(d)).div(Big::u(b)).mul(Big::u(b))).is_zero()
}

impl BandTracker {
    pub fn begin(&mut self, s0: &Snap) {
        self.cur = s0.vamms.iter().map(|v| (s0.height, v.spot, v.spot)).collect();
        self.exact = s0.vamms.iter().map(|v| (exact_spot(v.q, v.b, v.decimals), exact_spot(v.q, v.b, v.decimals))).collect();
    }
    /// reference price for trades executed at `height`
    pub fn reference(&self, vamm: usize, height: u64) -> u128 {
        let (h, last, refp) = self.cur[vamm];
        if height > h {
            last
        } else {
            refp
        }
    }
    /// true when the reference price and both band limits derived from it involve no rounding at all, so that
    /// "inside the closed band" means the same in integer and in real arithmetic
    pub fn band_is_exact(&self, vamm: usize, height: u64, fluct: u128, d: u128) -> bool {
        let (h, _, _) = self.cur[vamm];
        let (last_exact, ref_exact) = self.exact[vamm];
        let e = if height > h { last_exact } else { ref_exact };
        let r = self.reference(vamm, height);
        let no_rem = |x: u128| Big::u(r).mul(Big::u(x)).sub(Big::u(r).mul(Big::u(x)).div(Big::u(d)).mul(Big::u(d))).is_zero();
        e && fluct <= d && no_rem(d + fluct) && no_rem(d - fluct)
    }
    pub fn observe(&mut self, pre: &Snap, post: &Snap) {
        for (i, (a, b)) in pre.vamms.iter().zip(post.vamms.iter()).enumerate() {
            if a.q != b.q || a.b != b.b {
                let (h, last, refp) = self.cur[i];
                let (last_exact, ref_exact) = self.exact[i];
                let now_exact = exact_spot(b.q, b.b, b.decimals);
                if post.height > h {
                    self.cur[i] = (post.height, b.spot, last);
                    self.exact[i] = (now_exact, last_exact);
                } else {
                    self.cur[i] = (h, b.spot, refp);
                    self.exact[i] = (now_exact, ref_exact);
                }
            }
        }
    }
    pub fn bounds(&self, vamm: usize, height: u64, fluct: u128, d: u128) -> (u128, u128) {
        let r = self.reference(vamm, height);
        let up = Big::u(r).mul(Big::u(d + fluct)).div(Big::u(d)).to_u128().unwrap_or(u128::MAX);
        let lo = Big::u(r).mul(Big::u(d.saturating_sub(fluct))).div(Big::u(d)).to_u128().unwrap_or(0);
        (lo, up)
    }
}

/// Accounting identity of a reduction (reduce / partial close), independent of how the engine splits the PnL between
/// margin and open notional: with book value = margin - open notional for a long (margin + open notional for a
/// short) - what the final close pays on top of (minus) the quote it exchanges - a reduction that exchanged Q quote
/// and charged funding F moves the book value by +Q - F (long) or -Q - F (short). Returns (book value after,
/// expected) or None when the margin was clamped at zero (equity could not cover what was owed).
/// pro-rata remaining open notional of a reduction: position value - exchanged quote - unrealized PnL that stays open
/// (mirrored for shorts); negative when the trade fetched (cost) more than the closed share of the position's value
/// plus the whole remaining cost basis
fn pro_rata_remainder(view: &PosView, spot_notional: u128, quote: u128, realized_pro_rata: &Big) -> Big {
    let upnl_after = view.pnl_for(spot_notional).sub(*realized_pro_rata);
    if view.pos.long_dir {
        Big::u(spot_notional).sub(Big::u(quote)).sub(upnl_after)
    } else {
        upnl_after.add(Big::u(spot_notional)).sub(Big::u(quote))
    }
}

fn book_value_identity(view: &PosView, post: &Pos, quote: u128, f: &Big, m0: &Big, realized_pro_rata: &Big) -> Option<(Big, Big)> {
    if m0.clone().add(realized_pro_rata.clone()).sub(f.clone()).is_neg() || post.margin == 0 {
        return None;
    }
    if view.pos.long_dir {
        let got = Big::u(post.margin).sub(Big::u(post.notional));
        let expect = m0.clone().sub(Big::u(view.pos.notional)).add(Big::u(quote)).sub(f.clone());
        Some((got, expect))
    } else {
        let got = Big::u(post.margin).add(Big::u(post.notional));
        let expect = m0.clone().add(Big::u(view.pos.notional)).sub(Big::u(quote)).sub(f.clone());
        Some((got, expect))
    }
}

// ------------------------------------------------------------------------------------------
// C07

#[derive(Default)]
pub struct C07 {
    sh: FundingShadow,
    band: BandTracker,
    expect: Option<(String, String)>, // (signature context, detail) when all antecedents hold
    /// pre-state quantities used to tell WHICH subtraction underflowed: (margin, margin after the realised PnL)
    sub_ctx: (u128, Option<u128>),
    /// open notional + |realised PnL|: first operand of the new-open-notional line of a partial liquidation in the two
    /// cases where the engine adds the realised PnL before subtracting the exchanged quote (long in profit, short in loss)
    notional_ctx: Option<u128>,
    /// registered with the insurance fund according to the ACCEPTED AddVamm / RemoveVamm calls (the deployment registers
    /// live vAMMs of matching decimals), not according to what the fund reports
    own_reg: Vec<bool>,
}

impl Monitor for C07 {
    fn prop(&self) -> &'static str {
        "C07"
    }
    fn begin(&mut self, w: &World, s0: &Snap, _r: &mut Report) {
        self.band.begin(s0);
        self.sh.begin(w, s0);
        let d8 = w.cfg.decimals();
        self.own_reg = w.cfg.vamms.iter().map(|v| v.live && v.decimals.unwrap_or(d8) == d8).collect();
    }
    fn pre(&mut self, w: &World, op: &Op, pre: &Snap, r: &mut Report) {
        self.expect = None;
        let Some((_sender, eng::ExecuteMsg::Liquidate { vamm, trader, quote_asset_limit }, _)) = engine_msg(op) else { return };
        let Some(vi) = w.vamm_idx(vamm) else { return };
        if !quote_asset_limit.is_zero() {
            return;
        }
        let Some(mut view) = pos_view_sh(w, pre, vi, trader, &mut self.sh) else { return };
        if view.pos.size == 0 {
            return;
        }
        r.count("liquidate-attempts-on-positions");
        // the oracle price is what the harness itself submitted (the vAMM's own read may be the defect)
        let Some((oracle_sub, _)) = w.feed_hist.last().cloned() else { return };
        if let Some(o) = view.oracle {
            if o != oracle_sub {
                r.inconclusive("vAMM oracle read differs from the last submission".into());
                return;
            }
        }
        view.oracle = Some(oracle_sub);
        let vs = &pre.vamms[vi];
        let e = &pre.eng;
        let Some((ratio, which)) = view.ratio_liq() else {
            r.count("skip:unquotable");
            return;
        };
        if !(ratio < Big::u(e.maint)) {
            return;
        }
        r.count("under-margined-attempts");
        let registered = self.own_reg.get(vi).cloned().unwrap_or(vs.registered);
        if !vs.open || !registered {
            r.count("skip:closed-or-unregistered");
            return;
        }
        if e.liq_fee == 0 {
            r.count("skip:zero-liquidation-fee");
            return;
        }
        let d = view.d;
        let Some(q_whole) = view.spot_notional else { return };
        let mut q_fee_base = q_whole;
        if e.partial != 0 {
            let ps = Big::u(view.abs_size).mul(Big::u(e.partial)).div(Big::u(d)).to_u128().unwrap_or(0);
            if ps == 0 {
                r.count("skip:partial-size-zero");
                return;
            }
            match w.output_amount(vi, view.pos.long_dir, ps) {
                Ok(q) => q_fee_base = q_fee_base.min(q),
                Err(_) => {
                    r.count("skip:partial-unquotable");
                    return;
                }
            }
        }
        // fee that rounds to zero would be a zero-amount transfer: treated as "cannot fill"
        if Big::u(q_fee_base).mul(Big::u(e.liq_fee)).div(Big::u(2 * d)).is_zero() {
            r.count("skip:fee-rounds-to-zero");
            return;
        }
        // closing a short buys base back: must leave the curve a positive base reserve
        if !view.pos.long_dir && view.abs_size >= vs.b {
            r.count("skip:cannot-fill");
            return;
        }
        if vs.fluct != 0 {
            let (lo, up) = self.band.bounds(vi, pre.height, vs.fluct, vs.decimals);
            // a margin of two raw units at the limits, unless nothing was rounded anywhere (reference price, both limits
            // and the spot price are exact quotients): then "not outside the band" is unambiguous, limits included
            let exact = self.band.band_is_exact(vi, pre.height, vs.fluct, vs.decimals) && vs.b != 0 && Big::u(vs.q).mul(Big::u(vs.decimals)).sub(Big::u(vs.spot).mul(Big::u(vs.b))).is_zero();
            let m = if exact { 0 } else { 2 };
            if vs.spot + m > up || vs.spot < lo + m {
                r.count("skip:already-outside-band");
                return;
            }
            if exact && (vs.spot == up || vs.spot == lo) {
                r.count("antecedents-met-with-spot-exactly-on-the-band-limit");
            }
        }
        let ins_bal = pre.bal(w.insurance.as_str());
        // "holds enough to cover any shortfall": position value, margin, the close quote and the funding owed, twice over
        let need = Big::u(2).mul(Big::u(view.pos.notional).add(Big::u(view.pos.margin)).add(Big::u(q_whole)).add(view.funding().abs()));
        if Big::u(ins_bal) < need {
            r.count("skip:insurance-fund-too-small");
            return;
        }
        let vault = pre.bal(w.engine.as_str());
        let class = if ratio.is_neg() { "negative" } else if ratio > Big::u(e.liq_fee) { "above-fee" } else { "below-fee" };
        // everything a full liquidation sends out of the vault: the whole remaining equity (insurance
        // fund part + liquidator fee), or at least the fee
        let fee = Big::u(q_whole).mul(Big::u(e.liq_fee)).div(Big::u(2 * d));
        let equity = Big::u(view.pos.margin).add(view.pnl_for(q_whole)).sub(view.funding());
        let outflow = equity.max(fee);
        let vault_short = Big::u(vault) < outflow || vault < view.pos.margin;
        // what is left for the insurance fund after the fee (0 when the position is in bad debt), and which
        // path the engine will predictably take: used only to key the signature of a failure precisely
        let remaining = if equity > fee { equity.sub(fee) } else { Big::zero() };
        let predicted_partial = e.partial != 0 && ratio.abs() > Big::u(e.liq_fee);
        let remclass = if predicted_partial { "partial" } else if remaining.is_zero() { "rem=0" } else { "rem>0" };
        let feed = if w.cfg.feed == FeedKind::Real { "real" } else { "mock" };
        let partial = if e.partial == 0 { "p0" } else if e.partial == d { "p100" } else { "pmid" };
        // the partial path computes margin' = margin + realised spot PnL - penalty unsigned; the first operand of an
        // underflowing subtraction on that line is the margin or the margin after the realised PnL
        let realized = view.pnl_for(q_whole).mul(Big::u(e.partial)).div(Big::u(d));
        self.sub_ctx = (view.pos.margin, Big::u(view.pos.margin).add(realized.clone()).to_u128());
        self.notional_ctx = if view.pos.long_dir != realized.is_neg() { Big::u(view.pos.notional).add(realized.abs()).to_u128() } else { None };
        r.count("antecedents-met");
        if e.paused {
            r.count(if predicted_partial { "antecedents-met-while-paused:partial-path" } else { "antecedents-met-while-paused:full-path" });
        }
        r.case(format!("{}|{}|{}|{}|vault_short={}|paused={}|{}", feed, which, class, partial, vault_short, e.paused, if view.pos.long_dir { "long" } else { "short" }));
        let pclass = if e.partial == 0 { "p0" } else { "p>0" };
        self.expect = Some((
            format!("{}|{}|{}|vault_short={},{}", feed, class, pclass, vault_short, remclass),
            format!(
                "ratio {} ({}) < maintenance {}, size {} margin {} notional {} close quote {} vault {} insurance {} partial {} liq_fee {}",
                ratio, which, e.maint, view.pos.size, view.pos.margin, view.pos.notional, q_whole, vault, ins_bal, e.partial, e.liq_fee
            ),
        ));
    }
    fn post(&mut self, w: &World, st: &Step, r: &mut Report) {
        self.band.observe(&st.pre, &st.post);
        self.sh.observe(w, st);
        self.sh.report(r);
        if let (true, Op::Insurance { msg, .. }) = (st.out.ok, &st.op) {
            match msg {
                margined_perp::margined_insurance_fund::ExecuteMsg::AddVamm { vamm } => {
                    if let Some(i) = w.vamm_idx(vamm) {
                        self.own_reg[i] = true;
                    }
                }
                margined_perp::margined_insurance_fund::ExecuteMsg::RemoveVamm { vamm } => {
                    if let Some(i) = w.vamm_idx(vamm) {
                        self.own_reg[i] = false;
                    }
                }
                _ => {}
            }
        }
        let Some((ctx, detail)) = self.expect.take() else { return };
        if st.armed.is_some() && st.out.fault_fired {
            return;
        }
        r.eval();
        if st.out.ok {
            r.count("progress-ok");
            r.sample_once(&ctx, json!({"op": short_op(&st.op), "pre": detail, "result": "liquidated"}));
        } else {
            // signature: oracle kind, error class and the context that error class depends on
            let parts: Vec<&str> = ctx.split('|').collect();
            let ec = err_class(&st.out.err_text());
            // which unsigned subtraction underflowed: the first operand of the error names it
            let nums: Vec<u128> = st.out.err_text().split(|c: char| !c.is_ascii_digit()).filter_map(|t| t.parse::<u128>().ok()).collect();
            let sub_tag = if ec.contains("Cannot Sub") {
                match nums.first() {
                    Some(a) if *a == self.sub_ctx.0 || Some(*a) == self.sub_ctx.1 => "|sub:margin",
                    Some(a) if Some(*a) == self.notional_ctx => "|sub:notional+pnl",
                    _ => "|sub:other",
                }
            } else {
                ""
            };
            let sig_ctx = if ec.contains("transfer failure") {
                parts[3].to_string()
            } else if ec.contains("parsing into type") {
                "oracle-read".to_string()
            } else if sub_tag == "|sub:notional+pnl" {
                // the cause (pro-rata realised PnL vs. the convex price of the partial trade) does not depend on which
                // ratio class sent the position down the partial path
                format!("{}{}", parts[2], sub_tag)
            } else {
                format!("{}|{}{}", parts[1], parts[2], sub_tag)
            };
            r.violation(
                "C07",
                "R1-under-margined-not-liquidatable",
                format!("R1|{}|{}|{}", parts[0], ec, sig_ctx),
                format!("Liquidate failed with '{}' although {}", st.out.err_text(), detail),
                st.seq,
            );
        }
    }
}

// ------------------------------------------------------------------------------------------
// C11

#[derive(Default)]
pub struct C11 {
    view: Option<PosView>,
    pf: Option<(Option<u128>, Option<u128>)>, // (vamm twap, oracle twap) pre-queried at the configured interval
}

impl Monitor for C11 {
    fn prop(&self) -> &'static str {
        "C11"
    }
    fn pre(&mut self, w: &World, op: &Op, pre: &Snap, _r: &mut Report) {
        self.view = None;
        self.pf = None;
        let Some((sender, msg, _)) = engine_msg(op) else { return };
        match msg {
            eng::ExecuteMsg::PayFunding { vamm } => {
                if let Some(vi) = w.vamm_idx(vamm) {
                    let iv = pre.vamms[vi].twap_interval;
                    let tv = w.q_vamm_u(vi, &vm::QueryMsg::TwapPrice { interval: iv }).ok();
                    let to = w.q_vamm_u(vi, &vm::QueryMsg::UnderlyingTwapPrice { interval: iv }).ok();
                    self.pf = Some((tv, to));
                }
            }
            eng::ExecuteMsg::OpenPosition { vamm, .. }
            | eng::ExecuteMsg::ClosePosition { vamm, .. }
            | eng::ExecuteMsg::DepositMargin { vamm, .. }
            | eng::ExecuteMsg::WithdrawMargin { vamm, .. } => {
                if let Some(vi) = w.vamm_idx(vamm) {
                    self.view = pos_view(w, pre, vi, sender);
                }
            }
            eng::ExecuteMsg::Liquidate { vamm, trader, .. } => {
                if let Some(vi) = w.vamm_idx(vamm) {
                    self.view = pos_view(w, pre, vi, trader);
                }
            }
            _ => {}
        }
    }
    fn post(&mut self, w: &World, st: &Step, r: &mut Report) {
        // R5: the cumulative premium fraction of a vAMM moves only in a successful PayFunding on that vAMM
        let pf_vamm = match &st.op {
            Op::Engine { msg: eng::ExecuteMsg::PayFunding { vamm }, .. } if st.out.ok => w.vamm_idx(vamm),
            _ => None,
        };
        for (i, (a, b)) in st.pre.vamms.iter().zip(st.post.vamms.iter()).enumerate() {
            if a.cum_premium != b.cum_premium && pf_vamm != Some(i) {
                r.violation(
                    "C11",
                    "R5-cumulative-fraction-moved-outside-settlement",
                    format!("R5|{}|{}", st.op.kind(), reply_path(w, &st.out)),
                    format!("vamm{} cumulative premium fraction {} -> {} in a {} transaction", i, a.cum_premium, b.cum_premium, st.op.kind()),
                    st.seq,
                );
            }
        }
        let Some((sender, msg, funds)) = engine_msg(&st.op) else { return };
        if !st.out.ok {
            if let eng::ExecuteMsg::PayFunding { vamm } = msg {
                if let Some(vi) = w.vamm_idx(vamm) {
                    if st.pre.time < st.pre.vamms[vi].next_funding_time && st.pre.vamms[vi].open && st.pre.vamms[vi].registered {
                        r.count("R1-early-settlement-refused");
                        r.case("payfunding|early|refused".into());
                    }
                }
            }
            return;
        }
        let d = st.pre.eng.decimals;
        let engine = w.engine.to_string();
        let ins = w.insurance.to_string();
        match msg {
            eng::ExecuteMsg::PayFunding { vamm } => {
                let Some(vi) = w.vamm_idx(vamm) else { return };
                let (a, b) = (&st.pre.vamms[vi], &st.post.vamms[vi]);
                r.eval();
                r.count("settlements");
                let now = st.pre.time;
                if now < a.next_funding_time {
                    r.violation("C11", "R1-early-settlement", "R1".into(), format!("PayFunding succeeded at {} before next funding time {}", now, a.next_funding_time), st.seq);
                }
                let late = if now == a.next_funding_time { "on-time" } else if now < a.next_funding_time + a.funding_period { "late" } else { "very-late" };
                let dcum = Big::i(b.cum_premium).sub(Big::i(a.cum_premium));
                if let Some((Some(tv), Some(to))) = self.pf {
                    let expect = Big::u(tv).sub(Big::u(to)).mul(Big::u(a.funding_period as u128)).div(Big::u(86400));
                    r.count("R2-premium-checked");
                    if !dcum.within(expect, 1) {
                        r.violation(
                            "C11",
                            "R2-premium-fraction",
                            format!("R2|sign{}", sgn(&expect)),
                            format!("cumulative fraction moved by {} expected ({} - {}) * {} / 86400 = {}", dcum, tv, to, a.funding_period, expect),
                            st.seq,
                        );
                    }
                } else {
                    r.count("R2-twap-unavailable");
                }
                if (b.next_funding_time as u128) < now as u128 + (a.funding_period as u128) / 2 {
                    r.violation(
                        "C11",
                        "R2-next-funding-time",
                        "R2|nft".into(),
                        format!("next funding time {} is less than half a period ({}) after {}", b.next_funding_time, a.funding_period, now),
                        st.seq,
                    );
                }
                // R3 collateral movement
                let amt = Big::i(a.tps).mul(dcum).div(Big::u(d));
                let vault = st.pre.bal(&engine);
                let to_ins = st.out.sum_transfers(&engine, &ins);
                let from_ins = st.out.sum_transfers(&ins, &engine);
                let capped = amt.is_pos() && amt > Big::u(vault);
                let (exp_to, exp_from) = if amt.is_pos() { (amt.min(Big::u(vault)), Big::zero()) } else if amt.is_neg() { (Big::zero(), amt.abs()) } else { (Big::zero(), Big::zero()) };
                r.case(format!("payfunding|{}|A{}|capped={}|tps{}", late, sgn(&amt), capped, sgn(&Big::i(a.tps))));
                if !Big::u(to_ins).within(exp_to, 1) || !Big::u(from_ins).within(exp_from, 1) {
                    r.violation(
                        "C11",
                        "R3-funding-transfer",
                        format!("R3|A{}|capped={}", sgn(&amt), capped),
                        format!("net position {} x fraction {} = {}: vault->insurance {} (expected {}), insurance->vault {} (expected {}), vault balance {}", a.tps, dcum, amt, to_ins, exp_to, from_ins, exp_from, vault),
                        st.seq,
                    );
                }
                let others = st.out.transfers.iter().filter(|t| !((t.from == engine && t.to == ins) || (t.from == ins && t.to == engine))).count();
                if others > 0 {
                    r.violation("C11", "R3-unexpected-transfer", "R3|other".into(), format!("PayFunding moved collateral elsewhere: {:?}", st.out.transfers), st.seq);
                }
                r.sample_once(
                    &format!("payfunding|A{}|capped={}", sgn(&amt), capped),
                    json!({"op": short_op(&st.op), "twaps": format!("{:?}", self.pf), "delta_fraction": dcum.to_string(), "net_position": a.tps.to_string(), "amount": amt.to_string(), "transfers": st.out.transfers}),
                );
                // no position is settled by PayFunding itself
                for p in st.pre.pos.iter() {
                    if let Some(q) = st.post.pos(p.vamm, &p.trader) {
                        if q.ckpt != p.ckpt || q.margin != p.margin {
                            r.violation("C11", "R4-settled-by-payfunding", "R4|payfunding".into(), format!("position of {} changed by PayFunding", p.trader), st.seq);
                        }
                    }
                }
            }
            _ => {
                // R4: exactly-once ledger on owner operations
                let Some(view) = self.view.clone() else { return };
                if view.pos.size == 0 {
                    return;
                }
                let vi = view.pos.vamm;
                let owner = view.pos.trader.clone();
                let f = view.funding();
                let cum = st.pre.vamms[vi].cum_premium;
                let path = reply_path(w, &st.out);
                let post = st.post.pos(vi, &owner).cloned();
                let m0 = Big::u(view.pos.margin);
                let fz = if f.is_zero() { "F=0" } else if f.is_pos() { "F+" } else { "F-" };
                let swaps: Vec<SwapEv> = swap_events(w, &st.out).into_iter().filter(|s| s.vamm == vi).collect();
                r.eval();
                let mut must_settle = true;
                let mut label = String::new();
                match msg {
                    eng::ExecuteMsg::OpenPosition { margin_amount, leverage, side, .. } => {
                        let n = Big::u(margin_amount.u128()).mul(Big::u(leverage.u128())).div(Big::u(d));
                        let same = (view.pos.long_dir && *side == eng::Side::Buy) || (!view.pos.long_dir && *side == eng::Side::Sell);
                        if path == "update_position" && same {
                            label = "increase".into();
                            let paid = n.mul(Big::u(d)).div(Big::u(leverage.u128().max(1)));
                            let expect = m0.add(paid).sub(f);
                            if let Some(p) = &post {
                                if expect >= Big::zero() && !Big::u(p.margin).within(expect, 1) {
                                    r.violation("C11", "R4-increase-identity", format!("R4|increase|{}", fz), format!("margin {} -> {} expected {} (paid in {} funding {})", view.pos.margin, p.margin, expect, paid, f), st.seq);
                                }
                            }
                        } else if path == "update_position" {
                            label = "reduce".into();
                            if let (Some(p), Some(sn), Some(s0)) = (&post, view.spot_notional, swaps.first()) {
                                let closed = view.abs_size.saturating_sub(p.size.unsigned_abs());
                                let realized = view.pnl_for(sn).mul(Big::u(closed)).div(Big::u(view.abs_size.max(1)));
                                if pro_rata_remainder(&view, sn, s0.quote, &realized).is_neg() {
                                    r.count("R4-reductions-with-negative-pro-rata-remainder");
                                }
                                if let Some((got, expect)) = book_value_identity(&view, p, s0.quote, &f, &m0, &realized) {
                                    if !got.within(expect.clone(), 2) {
                                        r.violation("C11", "R4-reduce-identity", format!("R4|reduce|{}", fz), format!("margin {} -> {}, open notional {} -> {}: book value {} expected {} (exchanged quote {} funding {})", view.pos.margin, p.margin, view.pos.notional, p.notional, got, expect, s0.quote, f), st.seq);
                                    }
                                }
                            }
                        } else if path.starts_with("reverse_position") {
                            label = "reversal".into();
                            if let Some(s0) = swaps.first() {
                                let pnl = view.pnl_for(s0.quote);
                                let old_eq = m0.add(pnl).sub(f);
                                let new_margin = post.as_ref().map(|p| p.margin).unwrap_or(0);
                                // net flow to the trader, trading fees excluded
                                let recv = st.out.sum_transfers(&engine, sender);
                                let flow = if w.cw20.is_some() {
                                    Big::u(recv).sub(Big::u(st.out.sum_transfers(sender, &engine)))
                                } else {
                                    let fees = st.out.sum_transfers(&engine, &ins) + st.out.sum_transfers(&engine, st.pre.eng.fee_pool.as_str());
                                    Big::u(recv).sub(Big::u(funds)).add(Big::u(fees))
                                };
                                let expect = old_eq.sub(Big::u(new_margin));
                                // the engine clamps at zero when the old equity cannot cover what is owed
                                if m0.add(pnl) >= Big::zero() && old_eq >= Big::zero() && !flow.within(expect, 2) {
                                    r.violation(
                                        "C11",
                                        "R4-reversal-identity",
                                        format!("R4|reversal|{}", fz),
                                        format!("net flow to trader {} expected old margin {} + pnl {} - funding {} - new margin {} = {}", flow, view.pos.margin, pnl, f, new_margin, expect),
                                        st.seq,
                                    );
                                }
                            }
                        } else {
                            label = format!("open:{}", path);
                            must_settle = false;
                        }
                    }
                    eng::ExecuteMsg::ClosePosition { .. } => {
                        if path == "close_position" || path.starts_with("close_position+") {
                            label = "close".into();
                            if let Some(s0) = swaps.first() {
                                let e = m0.add(view.pnl_for(s0.quote)).sub(f);
                                let paid = st.out.sum_transfers(&engine, sender);
                                if e >= Big::zero() && !Big::u(paid).within(e, 1) {
                                    r.violation("C11", "R4-close-identity", format!("R4|close|{}", fz), format!("paid {} expected equity {} incl. funding {}", paid, e, f), st.seq);
                                }
                            }
                        } else {
                            label = "partial_close".into();
                            if let (Some(p), Some(sn), Some(s0)) = (&post, view.spot_notional, swaps.first()) {
                                let realized = view.pnl_for(sn).mul(Big::u(s0.base)).div(Big::u(view.abs_size.max(1)));
                                if pro_rata_remainder(&view, sn, s0.quote, &realized).is_neg() {
                                    r.count("R4-reductions-with-negative-pro-rata-remainder");
                                }
                                if let Some((got, expect)) = book_value_identity(&view, p, s0.quote, &f, &m0, &realized) {
                                    if !got.within(expect.clone(), 2) {
                                        r.violation("C11", "R4-partial-close-identity", format!("R4|partial_close|{}", fz), format!("margin {} -> {}, open notional {} -> {}: book value {} expected {} (exchanged quote {} funding {})", view.pos.margin, p.margin, view.pos.notional, p.notional, got, expect, s0.quote, f), st.seq);
                                    }
                                }
                            }
                        }
                    }
                    eng::ExecuteMsg::WithdrawMargin { amount, .. } => {
                        label = "withdraw".into();
                        if let Some(p) = &post {
                            let expect = m0.sub(Big::u(amount.u128())).sub(f);
                            if expect >= Big::zero() && !Big::u(p.margin).within(expect, 1) {
                                r.violation("C11", "R4-withdraw-identity", format!("R4|withdraw|{}", fz), format!("margin {} -> {} expected {} (amount {} funding {})", view.pos.margin, p.margin, expect, amount, f), st.seq);
                            }
                        }
                    }
                    eng::ExecuteMsg::DepositMargin { amount, .. } => {
                        label = "deposit".into();
                        must_settle = false;
                        if let Some(p) = &post {
                            if p.ckpt != view.pos.ckpt || p.margin != view.pos.margin + amount.u128() {
                                r.violation("C11", "R4-deposit-settled", format!("R4|deposit|{}", fz), format!("deposit changed checkpoint {} -> {} / margin {} -> {}", view.pos.ckpt, p.ckpt, view.pos.margin, p.margin), st.seq);
                            }
                        }
                    }
                    eng::ExecuteMsg::Liquidate { .. } => {
                        if path.contains("partial_liquidation") {
                            label = "partial_liquidation".into();
                            must_settle = false;
                            if let Some(p) = &post {
                                if p.ckpt != view.pos.ckpt {
                                    r.violation("C11", "R4-partial-liquidation-moved-checkpoint", format!("R4|partial_liquidation|{}", fz), format!("checkpoint {} -> {} without charging", view.pos.ckpt, p.ckpt), st.seq);
                                }
                            }
                        } else {
                            label = "liquidation".into();
                            if let Some(s0) = swaps.first() {
                                let fee = st.out.sum_transfers(&engine, sender);
                                let eq = m0.add(view.pnl_for(s0.quote)).sub(f);
                                let rem = if eq < Big::u(fee) { Big::zero() } else { eq.sub(Big::u(fee)) };
                                let to_ins = st.out.sum_transfers(&engine, &ins);
                                if sender != owner.as_str() && !Big::u(to_ins).within(rem, 1) {
                                    r.violation("C11", "R4-liquidation-identity", format!("R4|liquidation|{}", fz), format!("insurance received {} expected {} (funding {})", to_ins, rem, f), st.seq);
                                }
                            }
                        }
                    }
                    _ => {}
                }
                r.count(&format!("R4:{}:{}", label, fz));
                r.case(format!("{}|{}|{}", label, fz, if view.pos.long_dir { "long" } else { "short" }));
                if !f.is_zero() {
                    r.count("R4-nonzero-funding-ops");
                    r.sample_once(&format!("{}|{}", label, fz), json!({"op": short_op(&st.op), "funding_owed": f.to_string(), "margin_before": view.pos.margin.to_string(), "margin_after": post.as_ref().map(|p| p.margin.to_string()), "ckpt_before": view.pos.ckpt.to_string(), "ckpt_after": post.as_ref().map(|p| p.ckpt.to_string()), "cum": cum.to_string()}));
                }
                if must_settle {
                    if let Some(p) = &post {
                        if p.size != 0 && p.ckpt != cum {
                            r.violation(
                                "C11",
                                "R4-checkpoint-not-advanced",
                                format!("R4|ckpt|{}|{}", label, fz),
                                format!("after {} checkpoint is {} but cumulative fraction is {}", label, p.ckpt, cum),
                                st.seq,
                            );
                        }
                    }
                }
            }
        }
    }
}

// ------------------------------------------------------------------------------------------
// C12

#[derive(Default)]
pub struct C12 {
    pre_notional: Option<u128>,
    /// the fee ratios each vAMM was GIVEN (instantiate message, then every accepted UpdateConfig that names them):
    /// the expected fees are computed from these, not from what the vAMM reports about itself
    own: Vec<(u128, u128)>,
}

impl Monitor for C12 {
    fn prop(&self) -> &'static str {
        "C12"
    }
    fn begin(&mut self, w: &World, s0: &Snap, r: &mut Report) {
        self.own = w.cfg.vamms.iter().map(|v| (v.toll, v.spread)).collect();
        for (i, (t, sp)) in self.own.iter().enumerate() {
            if let Some(vs) = s0.vamms.get(i) {
                if vs.toll != *t || vs.spread != *sp {
                    r.violation(
                        "C12",
                        "R0-fee-ratios-not-as-configured",
                        "R0|instantiate".to_string(),
                        format!("vamm{} instantiated with toll {} spread {} reports toll {} spread {}", i, t, sp, vs.toll, vs.spread),
                        0,
                    );
                }
                if t != sp {
                    r.count("deployments-with-toll-differing-from-spread");
                }
            }
        }
    }
    fn pre(&mut self, w: &World, op: &Op, pre: &Snap, _r: &mut Report) {
        self.pre_notional = None;
        if let Some((sender, eng::ExecuteMsg::ClosePosition { vamm, .. }, _)) = engine_msg(op) {
            if let Some(vi) = w.vamm_idx(vamm) {
                self.pre_notional = pre.pos(vi, sender).map(|p| p.notional);
            }
        }
    }
    fn post(&mut self, w: &World, st: &Step, r: &mut Report) {
        if let (true, Op::Vamm { vamm, msg: vm::ExecuteMsg::UpdateConfig { toll_ratio, spread_ratio, .. }, .. }) = (st.out.ok, &st.op) {
            if let Some(o) = self.own.get_mut(*vamm) {
                if let Some(t) = toll_ratio {
                    o.0 = t.u128();
                }
                if let Some(sp) = spread_ratio {
                    o.1 = sp.u128();
                }
            }
        }
        let Some((sender, msg, _)) = engine_msg(&st.op) else { return };
        if !st.out.ok {
            return;
        }
        let d = st.pre.eng.decimals;
        let engine = w.engine.to_string();
        let ins = w.insurance.to_string();
        let pool = st.pre.eng.fee_pool.clone();
        let own = self.own.clone();
        // the vAMM as configured by its owner (fee ratios from the monitor's own record)
        let as_configured = |vi: usize| -> VammSnap {
            let mut v = st.pre.vamms[vi].clone();
            if let Some((t, sp)) = own.get(vi) {
                v.toll = *t;
                v.spread = *sp;
            }
            v
        };
        let native = w.cw20.is_none();
        let payer = if native { engine.clone() } else { sender.to_string() };
        let to_ins: Vec<u128> = st.out.transfers.iter().filter(|t| t.from == payer && t.to == ins).map(|t| t.amount).collect();
        let to_pool: Vec<u128> = st.out.transfers.iter().filter(|t| t.to == pool).map(|t| t.amount).collect();
        let pool_from_other = st.out.transfers.iter().filter(|t| t.to == pool && t.from != payer).count();
        let path = reply_path(w, &st.out);
        let coll = if native { "native" } else { "cw20" };
        let check = |r: &mut Report, what: &str, n: u128, vs: &VammSnap| {
            let es = Big::u(n).mul(Big::u(vs.spread)).div(Big::u(vs.decimals)).to_u128().unwrap_or(0);
            let et = Big::u(n).mul(Big::u(vs.toll)).div(Big::u(vs.decimals)).to_u128().unwrap_or(0);
            let want_ins: Vec<u128> = if es > 0 { vec![es] } else { vec![] };
            let want_pool: Vec<u128> = if et > 0 { vec![et] } else { vec![] };
            let zero = if vs.toll + vs.spread == 0 { "nofee" } else if es + et == 0 { "rounds-to-zero" } else { "fee" };
            r.case(format!("{}|{}|{}|{}", what, path, zero, coll));
            r.count(&format!("fees:{}:{}", what, zero));
            if to_ins != want_ins || to_pool != want_pool || pool_from_other > 0 {
                r.violation(
                    "C12",
                    "R1-fee-transfers",
                    format!("R1|{}|{}|{}", what, path, coll),
                    format!("notional {}: transfers to insurance {:?} (expected {:?}), to fee pool {:?} (expected {:?}); spread {} toll {}", n, to_ins, want_ins, to_pool, want_pool, vs.spread, vs.toll),
                    st.seq,
                );
            }
            if es + et > 0 {
                r.sample_once(&format!("{}|{}|{}", what, path, coll), json!({"op": short_op(&st.op), "notional": n.to_string(), "expected_spread": es.to_string(), "expected_toll": et.to_string(), "transfers": st.out.transfers}));
            }
        };
        match msg {
            eng::ExecuteMsg::OpenPosition { vamm, margin_amount, leverage, .. } => {
                let Some(vi) = w.vamm_idx(vamm) else { return };
                r.eval();
                let n = Big::u(margin_amount.u128()).mul(Big::u(leverage.u128())).div(Big::u(d)).to_u128().unwrap_or(0);
                check(r, "open", n, &as_configured(vi));
            }
            eng::ExecuteMsg::ClosePosition { vamm, .. } => {
                let Some(vi) = w.vamm_idx(vamm) else { return };
                if path == "close_position" {
                    r.eval();
                    if let Some(n) = self.pre_notional {
                        check(r, "close", n, &as_configured(vi));
                    }
                } else if path.starts_with("partial_close_position") {
                    // a partial close is a quote-denominated trade: the engine asks the vAMM to swap a quote
                    // amount, and (first clause of the property) the fee basis of a trade is the quote amount
                    // requested to trade; that amount is observed as the change of the vAMM's quote reserve
                    r.eval();
                    let (a, b) = (&st.pre.vamms[vi], &st.post.vamms[vi]);
                    let traded = if a.q > b.q { a.q - b.q } else { b.q - a.q };
                    check(r, "partial-close", traded, &as_configured(vi));
                } else {
                    r.count("fees:close-path-not-pinned");
                }
            }
            eng::ExecuteMsg::DepositMargin { .. } | eng::ExecuteMsg::WithdrawMargin { .. } => {
                r.eval();
                r.case(format!("{}|nofee-expected|{}", st.op.kind(), coll));
                r.count("fees:no-fee-ops");
                let ins_in: u128 = st.out.transfers.iter().filter(|t| t.to == ins).map(|t| t.amount).sum();
                if !to_pool.is_empty() || ins_in > 0 {
                    r.violation("C12", "R2-fee-on-margin-op", format!("R2|{}|{}", st.op.kind(), coll), format!("fee-like transfers in {}: {:?}", st.op.kind(), st.out.transfers), st.seq);
                }
            }
            eng::ExecuteMsg::PayFunding { .. } | eng::ExecuteMsg::Liquidate { .. } => {
                r.eval();
                r.case(format!("{}|{}|nofee-expected|{}", st.op.kind(), path, coll));
                r.count("fees:no-fee-ops");
                // the fee pool never receives anything here; the liquidated trader / caller pays no fee to the insurance fund
                let from_user_to_ins: u128 = st.out.transfers.iter().filter(|t| t.to == ins && t.from != engine).map(|t| t.amount).sum();
                if !to_pool.is_empty() || from_user_to_ins > 0 {
                    r.violation("C12", "R2-fee-on-funding-or-liquidation", format!("R2|{}|{}", st.op.kind(), coll), format!("fee-like transfers in {}: {:?}", st.op.kind(), st.out.transfers), st.seq);
                }
            }
            _ => {}
        }
    }
}

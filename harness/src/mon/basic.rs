//! Monitors that need only the per-step snapshots: C01, C02, C03, C08, C10.
use super::util::*;
use crate::big::Big;
use crate::ops::*;
use crate::world::*;
use margined_perp::margined_engine as eng;
use margined_perp::margined_insurance_fund as ins;
use margined_perp::margined_vamm as vm;
use serde_json::json;
use std::collections::BTreeMap;

// ------------------------------------------------------------------------------------------
// C01 — vAMM curve conservation

#[derive(Default)]
pub struct C01 {
    b0: Vec<i128>,
    maxq: Vec<BTreeMap<i128, u128>>,
}

fn kfloor(q: u128, b: u128, d: u128) -> Big {
    Big::u(q).mul(Big::u(b)).div(Big::u(d))
}

impl Monitor for C01 {
    fn prop(&self) -> &'static str {
        "C01"
    }
    fn begin(&mut self, _w: &World, s0: &Snap, _r: &mut Report) {
        self.b0 = s0.vamms.iter().map(|v| v.b as i128 + v.tps).collect();
        self.maxq = s0
            .vamms
            .iter()
            .map(|v| {
                let mut m = BTreeMap::new();
                if v.b >= v.decimals {
                    m.insert(v.tps, v.q);
                }
                m
            })
            .collect();
    }
    fn post(&mut self, w: &World, st: &Step, r: &mut Report) {
        let swaps = swap_events(w, &st.out);
        for (i, (a, b)) in st.pre.vamms.iter().zip(st.post.vamms.iter()).enumerate() {
            let d = a.decimals;
            let changed = a.q != b.q || a.b != b.b || a.tps != b.tps;
            if !changed && swaps.iter().all(|s| s.vamm != i) {
                continue;
            }
            r.eval();
            // R1 along every intermediate reserve pair reported by the swap events
            let mut seq: Vec<(u128, u128)> = vec![(a.q, a.b)];
            for s in swaps.iter().filter(|s| s.vamm == i) {
                let last = *seq.last().unwrap();
                seq.push(s.after(last.0, last.1));
            }
            seq.push((b.q, b.b));
            for pair in seq.windows(2) {
                let (k0, k1) = (kfloor(pair[0].0, pair[0].1, d), kfloor(pair[1].0, pair[1].1, d));
                if k1 < k0 {
                    r.violation(
                        "C01",
                        "R1-product-decreased",
                        format!("R1|{}", st.op.kind()),
                        format!("vamm{} k {} -> {} reserves {:?} -> {:?}", i, k0, k1, pair[0], pair[1]),
                        st.seq,
                    );
                }
            }
            // R2
            if b.b as i128 + b.tps != self.b0[i] {
                r.violation(
                    "C01",
                    "R2-base-plus-net-position",
                    format!("R2|{}", st.op.kind()),
                    format!("vamm{} base {} + tps {} != b0 {}", i, b.b, b.tps, self.b0[i]),
                    st.seq,
                );
            }
            // R3
            let mut revisit = false;
            if b.b >= d {
                if let Some(mx) = self.maxq[i].get(&b.tps).cloned() {
                    revisit = true;
                    r.count("R3-revisits");
                    if b.q < mx {
                        r.violation(
                            "C01",
                            "R3-quote-below-earlier-visit",
                            format!("R3|{}", st.op.kind()),
                            format!("vamm{} tps {} quote {} < earlier {}", i, b.tps, b.q, mx),
                            st.seq,
                        );
                    }
                }
                let e = self.maxq[i].entry(b.tps).or_insert(0);
                if b.q > *e {
                    *e = b.q;
                }
            }
            // distinct abstract cases from the swap legs
            let mut q0 = a.q;
            let mut b0 = a.b;
            for s in swaps.iter().filter(|s| s.vamm == i) {
                let k = kfloor(q0, b0, d);
                let (qa, ba) = s.after(q0, b0);
                let other_after = if s.input { qa } else { ba };
                let rem = if other_after == 0 {
                    false
                } else {
                    let kd = k.mul(Big::u(d));
                    !kd.sub(kd.div(Big::u(other_after)).mul(Big::u(other_after))).is_zero()
                };
                let amt = if s.input { s.quote } else { s.base };
                let of = if s.input { q0 } else { b0 };
                r.case(format!(
                    "{}|{}|rem={}|{}|revisit={}",
                    if s.input { "in" } else { "out" },
                    if s.add { "add" } else { "rem" },
                    rem,
                    mag_bucket(amt, of),
                    revisit
                ));
                if rem {
                    r.count("swaps-with-remainder");
                }
                r.count("swap-legs");
                q0 = qa;
                b0 = ba;
            }
            if st.out.ok && !swaps.is_empty() {
                r.sample_once(
                    &format!("{}", st.op.kind()),
                    json!({"op": short_op(&st.op), "pre": [a.q, a.b, a.tps], "post": [b.q, b.b, b.tps]}),
                );
            }
        }
    }
}

// ------------------------------------------------------------------------------------------
// C02 — engine positions mirror the vAMM's net position

#[derive(Default)]
pub struct C02;

impl Monitor for C02 {
    fn prop(&self) -> &'static str {
        "C02"
    }
    fn post(&mut self, w: &World, st: &Step, r: &mut Report) {
        let s = &st.post;
        if s.unknown_pos_keys > 0 {
            r.inconclusive(format!("{} position keys the monitor cannot attribute", s.unknown_pos_keys));
            return;
        }
        // the equality is checked after EVERY transaction (also direct calls to the vAMM by anyone);
        // coverage statistics below are kept for engine operations only
        let is_engine = matches!(st.op, Op::Engine { .. });
        if matches!(st.op, Op::Advance { .. } | Op::Oracle { .. }) {
            return;
        }
        if is_engine {
            r.eval();
        }
        for (i, v) in s.vamms.iter().enumerate() {
            let sum: i128 = s.pos.iter().filter(|p| p.vamm == i).map(|p| p.size).sum();
            // the equality must hold after every transaction; a discrepancy is attributed to the
            // transaction that introduced (or changed) it, not to every later step of the history
            let sum_pre: i128 = st.pre.pos.iter().filter(|p| p.vamm == i).map(|p| p.size).sum();
            let diff_pre = sum_pre - st.pre.vamms[i].tps;
            if sum != v.tps && sum - v.tps != diff_pre {
                r.violation(
                    "C02",
                    "R1-sum-of-sizes",
                    format!("R1|{}|{}|{}", st.op.kind(), reply_path(w, &st.out), outcome(&st.out)),
                    format!("vamm{} sum(position sizes) {} != total_position_size {}", i, sum, v.tps),
                    st.seq,
                );
            }
        }
        if !is_engine {
            if matches!(st.op, Op::Vamm { .. }) {
                r.count("direct-vamm-calls-checked");
            }
            return;
        }
        let path = reply_path(w, &st.out);
        if st.out.ok {
            let named = reply_path_from_events(w, &st.out);
            if named != path {
                r.count("path-label-differs-from-event-names");
                r.sample_once("path-label-differs", json!({"op": short_op(&st.op), "effects": path, "event_names": named}));
            } else {
                r.count("path-label-agrees-with-event-names");
            }
        }
        let side = match &st.op {
            Op::Engine { msg: eng::ExecuteMsg::OpenPosition { side, .. }, .. } => {
                if *side == eng::Side::Buy {
                    "buy"
                } else {
                    "sell"
                }
            }
            _ => "-",
        };
        let prior = st
            .op
            .engine_vamm()
            .and_then(|a| w.vamm_idx(a))
            .and_then(|vi| {
                let who = match &st.op {
                    Op::Engine { msg: eng::ExecuteMsg::Liquidate { trader, .. }, .. } => trader.clone(),
                    _ => st.op.sender().unwrap_or("").to_string(),
                };
                st.pre.pos(vi, &who).map(|p| if p.size > 0 { "long" } else if p.size < 0 { "short" } else { "zero" })
            })
            .unwrap_or("none");
        r.case(format!("{}|{}|{}|{}|{}", st.op.kind(), path, side, prior, outcome(&st.out)));
        r.count(&format!("path:{}", path));
        if st.out.ok {
            r.sample_once(
                &format!("{}:{}", st.op.kind(), path),
                json!({"op": short_op(&st.op), "tps": s.vamms.iter().map(|v| v.tps).collect::<Vec<_>>(),
                       "sizes": s.pos.iter().map(|p| (p.vamm, p.trader.clone(), p.size)).collect::<Vec<_>>()}),
            );
        }
    }
}

// ------------------------------------------------------------------------------------------
// C03 — collateral conserved, only permitted recipients

#[derive(Default)]
pub struct C03;

impl Monitor for C03 {
    fn prop(&self) -> &'static str {
        "C03"
    }
    fn post(&mut self, w: &World, st: &Step, r: &mut Report) {
        if matches!(st.op, Op::Advance { .. }) {
            return;
        }
        r.eval();
        let (pre, post) = (&st.pre, &st.post);
        // self-validation of the transfer log against the balance deltas
        let mut delta_log: BTreeMap<String, i128> = BTreeMap::new();
        for t in &st.out.transfers {
            *delta_log.entry(t.from.clone()).or_insert(0) -= t.amount as i128;
            *delta_log.entry(t.to.clone()).or_insert(0) += t.amount as i128;
        }
        let mut moved: Vec<(String, i128)> = vec![];
        for (k, v0) in pre.bal.iter() {
            let v1 = post.bal(k);
            let dl = v1 as i128 - *v0 as i128;
            if dl != 0 {
                moved.push((k.clone(), dl));
            }
            if st.out.ok && delta_log.get(k).cloned().unwrap_or(0) != dl {
                r.inconclusive(format!("transfer log disagrees with balance delta for {} in {}", k, st.op.kind()));
            }
        }
        // R1 conservation
        if pre.total() != post.total() || pre.supply != post.supply {
            r.violation(
                "C03",
                "R1-conservation",
                format!("R1|{}|{}", st.op.kind(), reply_path(w, &st.out)),
                format!("total {} -> {} supply {:?} -> {:?} moved {:?}", pre.total(), post.total(), pre.supply, post.supply, moved),
                st.seq,
            );
        }
        // R4: the insurance fund, the vAMMs and the price feed have no top-level entry point that moves collateral (the
        // fund pays the engine only, inside an engine transaction). A transaction sent to one of them directly must
        // leave every balance alone - otherwise collateral leaves the set {traders, liquidators, engine, fund, fee pool}.
        if matches!(st.op, Op::Insurance { .. } | Op::Vamm { .. } | Op::Feed { .. }) {
            r.count("direct-calls-to-fund-vamm-feed");
            if matches!(st.op, Op::Insurance { msg: ins::ExecuteMsg::Withdraw { .. }, .. }) {
                r.count("direct-insurance-withdraw-attempts");
            }
            if !moved.is_empty() {
                r.violation(
                    "C03",
                    "R4-collateral-moved-by-a-direct-call",
                    format!("R4|{}|{}", st.op.kind(), moved.iter().map(|(k, dl)| format!("{}{}", role_of(w, k), if *dl > 0 { "+" } else { "-" })).collect::<Vec<_>>().join(",")),
                    format!("{} sent by {:?} moved collateral: {:?}", st.op.kind(), st.op.sender(), moved),
                    st.seq,
                );
            }
        }
        if let Some((sender, msg, _)) = engine_msg(&st.op) {
            let allowed = [sender.to_string(), w.engine.to_string(), w.insurance.to_string(), st.pre.eng.fee_pool.clone()];
            for (k, dl) in &moved {
                if !allowed.contains(k) {
                    r.violation(
                        "C03",
                        "R2-recipient",
                        format!("R2|{}|{}|{}", st.op.kind(), reply_path(w, &st.out), role_of(w, k)),
                        format!("account {} changed by {} in a transaction sent by {}", k, dl, sender),
                        st.seq,
                    );
                }
            }
            if let eng::ExecuteMsg::Liquidate { trader, .. } = msg {
                if st.out.ok && trader != sender {
                    r.count("liquidations-by-others");
                    let dl = post.bal(trader) as i128 - pre.bal(trader) as i128;
                    if dl != 0 {
                        r.violation(
                            "C03",
                            "R3-liquidated-trader-paid",
                            format!("R3|{}", reply_path(w, &st.out)),
                            format!("liquidated trader {} balance changed by {}", trader, dl),
                            st.seq,
                        );
                    }
                }
            }
            let mut who: Vec<String> = moved.iter().map(|(k, dl)| format!("{}{}", role_of(w, k), if *dl > 0 { "+" } else { "-" })).collect();
            who.sort();
            who.dedup();
            r.case(format!("{}|{}|{}", st.op.kind(), reply_path(w, &st.out), who.join(",")));
            if st.out.ok && !moved.is_empty() {
                r.sample_once(
                    &format!("{}:{}", st.op.kind(), reply_path(w, &st.out)),
                    json!({"op": short_op(&st.op), "moved": moved, "transfers": st.out.transfers}),
                );
            }
        }
    }
}

pub fn role_of(w: &World, k: &str) -> &'static str {
    if k == w.engine.as_str() {
        "engine"
    } else if k == w.insurance.as_str() {
        "insurance"
    } else if k == w.fee_pool.as_str() || k == "feepool2" {
        "fee_pool"
    } else if w.vamm_idx(k).is_some() {
        "vamm"
    } else if k == w.feed.as_str() {
        "feed"
    } else if TRADERS.contains(&k) {
        "trader"
    } else if k == "liquidator" {
        "liquidator"
    } else {
        "other"
    }
}

// ------------------------------------------------------------------------------------------
// C08 — all-or-nothing, no in-flight residue

#[derive(Default)]
pub struct C08;

impl Monitor for C08 {
    fn prop(&self) -> &'static str {
        "C08"
    }
    fn post(&mut self, w: &World, st: &Step, r: &mut Report) {
        if matches!(st.op, Op::Advance { .. }) {
            return;
        }
        let out = &st.out;
        let is_eng = st.op.is_engine();
        if is_eng {
            r.eval();
        }
        if out.fault_armed.is_some() && out.fault_fired {
            r.count("fault-points-fired");
            let label = out.msg_tree.last().cloned().unwrap_or_default();
            r.count(&format!("fault-at:{}", label));
            r.case(format!("{}|k={}|at={}|{}", st.op.kind(), out.fault_armed.unwrap(), label, outcome(out)));
            // R1: an injected failure must surface as an error of the whole transaction
            if out.ok {
                r.violation(
                    "C08",
                    "R1-fault-swallowed",
                    format!("R1|{}|{}", st.op.kind(), label),
                    format!("sub-message #{} ({}) failed but the call returned Ok; tree {:?}", out.fault_armed.unwrap(), label, out.msg_tree),
                    st.seq,
                );
            }
        } else if is_eng {
            r.case(format!("{}|tree={}|{}", st.op.kind(), out.msg_tree.join(">"), outcome(out)));
            if out.ok {
                r.count("unfaulted-ok");
            } else {
                r.count("natural-failures");
                r.count(&format!("natural:{}", err_class(&out.err_text())));
            }
        }
        // R2: a failed transaction leaves every byte of state as before
        if !out.ok && st.pre.digest != st.post.digest {
            r.violation(
                "C08",
                "R2-state-changed-on-failure",
                format!("R2|{}", st.op.kind()),
                format!("storage digest changed across a failed transaction: {}", out.err_text()),
                st.seq,
            );
        }
        if !out.ok && st.pre.bal != st.post.bal {
            r.violation(
                "C08",
                "R2-balance-changed-on-failure",
                format!("R2b|{}", st.op.kind()),
                "balances changed across a failed transaction".to_string(),
                st.seq,
            );
        }
        // R3: no in-flight record after any transaction
        let s = &st.post;
        if s.tmp_swap || s.sent_funds || s.tmp_liq {
            r.violation(
                "C08",
                "R3-residue",
                format!("R3|{}|{}|swap={} funds={} liq={}", st.op.kind(), reply_path(w, out), s.tmp_swap, s.sent_funds, s.tmp_liq),
                format!("in-flight record left behind: tmp-swap={} sent-funds={} tmp-liquidator={}", s.tmp_swap, s.sent_funds, s.tmp_liq),
                st.seq,
            );
        }
        if is_eng && out.ok {
            r.sample_once(&format!("{}:{}", st.op.kind(), out.msg_tree.join(">")), json!({"op": short_op(&st.op), "message_tree": out.msg_tree}));
        }
    }
}

// ------------------------------------------------------------------------------------------
// C10 — one account's transaction never alters another trader's position

#[derive(Default)]
pub struct C10 {
    battery: u64,
}

impl Monitor for C10 {
    fn prop(&self) -> &'static str {
        "C10"
    }
    fn post(&mut self, w: &World, st: &Step, r: &mut Report) {
        let sender = st.op.sender().unwrap_or("").to_string();
        let mut allowed: Vec<String> = vec![];
        let mut liq_target: Option<String> = None;
        if let Some((s, msg, _)) = engine_msg(&st.op) {
            allowed.push(s.to_string());
            if let eng::ExecuteMsg::Liquidate { trader, .. } = msg {
                allowed.push(trader.clone());
                liq_target = Some(trader.clone());
            }
        }
        let (pre, post) = (&st.pre, &st.post);
        let mut bystanders = 0;
        let mut same_vamm = 0;
        let opv = st.op.engine_vamm().and_then(|a| w.vamm_idx(a));
        for p in pre.pos.iter() {
            if allowed.contains(&p.trader) {
                continue;
            }
            bystanders += 1;
            if Some(p.vamm) == opv {
                same_vamm += 1;
            }
            match post.pos(p.vamm, &p.trader) {
                Some(q) if q == p => {}
                other => {
                    r.violation(
                        "C10",
                        "R1-bystander-position-changed",
                        format!("R1|{}|{}", st.op.kind(), reply_path(w, &st.out)),
                        format!("position of {} on vamm{} changed by a transaction of {}: {:?} -> {:?}", p.trader, p.vamm, sender, p, other),
                        st.seq,
                    );
                }
            }
        }
        for q in post.pos.iter() {
            if allowed.contains(&q.trader) {
                continue;
            }
            if pre.pos(q.vamm, &q.trader).is_none() {
                r.violation(
                    "C10",
                    "R1-bystander-position-created",
                    format!("R1c|{}|{}", st.op.kind(), reply_path(w, &st.out)),
                    format!("position of {} on vamm{} created by a transaction of {}", q.trader, q.vamm, sender),
                    st.seq,
                );
            }
        }
        // a liquidation may touch only the named trader's position on the named vAMM; the
        // sender's own positions elsewhere and the liquidator's position must be untouched
        if let (Some(t), Some(vi)) = (&liq_target, opv) {
            for p in pre.pos.iter().filter(|p| p.trader == *t && p.vamm != vi || (p.trader == sender && sender != *t)) {
                if post.pos(p.vamm, &p.trader) != Some(p) {
                    r.violation(
                        "C10",
                        "R2-liquidation-touched-other-position",
                        format!("R2|{}", reply_path(w, &st.out)),
                        format!("liquidation of {} on vamm{} changed position {:?}", t, vi, p),
                        st.seq,
                    );
                }
            }
        }
        if post.unknown_pos_keys != 0 {
            r.inconclusive("raw position key not attributable".into());
        }
        if st.op.is_engine() {
            r.eval();
            r.case(format!("{}|bystanders={}|same_vamm={}|{}", st.op.kind(), bystanders.min(4), same_vamm.min(3), outcome(&st.out)));
            if bystanders > 0 && st.out.ok {
                r.count("steps-with-bystanders");
                r.sample_once(&format!("{}", st.op.kind()), json!({"op": short_op(&st.op), "bystander_positions": bystanders}));
            }
        }
        // queries never change state: run a query battery every few steps and compare digests
        self.battery += 1;
        if self.battery % 5 == 0 {
            for (i, _) in w.vamms.iter().enumerate() {
                let _ = w.spot(i);
                let _ = w.q_vamm_u(i, &vm::QueryMsg::TwapPrice { interval: 900 });
                let _ = w.q_vamm::<bool>(i, &vm::QueryMsg::IsOverSpreadLimit {});
                for t in TRADERS.iter() {
                    let _ = w.margin_ratio(i, t);
                    let _ = w.free_collateral(i, t);
                    let _ = w.q_engine::<eng::Position>(&eng::QueryMsg::PositionWithFundingPayment { vamm: w.vamms[i].to_string(), trader: t.to_string() });
                }
            }
            let _ = w.q_engine::<Vec<eng::Position>>(&eng::QueryMsg::AllPositions { trader: "alice".into() });
            r.count("query-batteries");
            if w.storage_digest() != post.digest {
                r.violation("C10", "R3-query-changed-state", "R3".into(), "storage digest changed across read-only queries".into(), st.seq);
            }
        }
    }
}

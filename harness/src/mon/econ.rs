//! Shadow-formula monitors: C04 (close pays equity), C05 (margin requirements), C06 (liquidation guard and payouts).
use super::calc::*;
use super::util::*;
use crate::big::Big;
use crate::ops::*;
use crate::world::*;
use margined_perp::margined_engine as eng;
use serde_json::json;

fn sgn(b: &Big) -> &'static str {
    match b.sign() {
        0 => "0",
        1 => "+",
        _ => "-",
    }
}

fn fee_cfg(v: &VammSnap) -> &'static str {
    if v.toll + v.spread == 0 {
        "nofee"
    } else {
        "fee"
    }
}

// ------------------------------------------------------------------------------------------
// C04

#[derive(Default)]
pub struct C04 {
    view: Option<PosView>,
    sh: FundingShadow,
}

impl Monitor for C04 {
    fn prop(&self) -> &'static str {
        "C04"
    }
    fn begin(&mut self, w: &World, s0: &Snap, _r: &mut Report) {
        self.sh.begin(w, s0);
    }
    fn pre(&mut self, w: &World, op: &Op, pre: &Snap, _r: &mut Report) {
        self.view = None;
        if let Some((sender, eng::ExecuteMsg::ClosePosition { vamm, .. }, _)) = engine_msg(op) {
            if let Some(vi) = w.vamm_idx(vamm) {
                self.view = pos_view_sh(w, pre, vi, sender, &mut self.sh);
            }
        }
    }
    fn post(&mut self, w: &World, st: &Step, r: &mut Report) {
        self.sh.observe(w, st);
        self.sh.report(r);
        let Some((sender, msg, _)) = engine_msg(&st.op) else { return };
        let trader_op = matches!(
            msg,
            eng::ExecuteMsg::OpenPosition { .. } | eng::ExecuteMsg::ClosePosition { .. } | eng::ExecuteMsg::DepositMargin { .. } | eng::ExecuteMsg::WithdrawMargin { .. }
        );
        if !trader_op || !st.out.ok {
            if let eng::ExecuteMsg::ClosePosition { .. } = msg {
                if !st.out.ok && st.out.err_text().contains("bad debt") {
                    r.count("close-rejected-bad-debt");
                    r.case(format!("rejected-bad-debt|{}", self.view.as_ref().map(|v| if v.pos.long_dir { "long" } else { "short" }).unwrap_or("?")));
                }
            }
            return;
        }
        let ins = w.insurance.to_string();
        // R4: insurance fund not lowered by more than the simultaneously recorded prepaid bad debt
        let dec = st.pre.bal(&ins).saturating_sub(st.post.bal(&ins));
        let dbd = st.post.eng.bad_debt.saturating_sub(st.pre.eng.bad_debt);
        if dec > 0 {
            r.count("R4-insurance-lowered-by-trader-action");
            r.eval();
            r.case(format!("ins-topup|{}|{}", st.op.kind(), reply_path(w, &st.out)));
        }
        if dec > dbd {
            r.violation(
                "C04",
                "R4-insurance-drained",
                format!("R4|{}|{}", st.op.kind(), reply_path(w, &st.out)),
                format!("insurance fund fell by {} but prepaid bad debt rose only by {}", dec, dbd),
                st.seq,
            );
        }
        let eng::ExecuteMsg::ClosePosition { vamm, .. } = msg else { return };
        let Some(vi) = w.vamm_idx(vamm) else { return };
        let Some(view) = self.view.clone() else { return };
        let path = reply_path(w, &st.out);
        let swaps: Vec<SwapEv> = swap_events(w, &st.out).into_iter().filter(|s| s.vamm == vi).collect();
        if swaps.len() != 1 {
            r.inconclusive(format!("close with {} swap events", swaps.len()));
            return;
        }
        let q = swaps[0].quote;
        let f = view.funding();
        let engine = w.engine.to_string();
        let payout = st.out.sum_transfers(&engine, sender);
        let shortfall = st.out.sum_transfers(&ins, &engine) > 0;
        r.eval();
        if path.contains("partial_close_position") {
            // partial close: rejected if the realised part would exceed the margin
            let closed = swaps[0].base;
            let pnl_spot = view.pnl_for(view.spot_notional.unwrap_or(0));
            let realized = if view.abs_size == 0 { Big::zero() } else { pnl_spot.mul(Big::u(closed)).div(Big::u(view.abs_size)) };
            let eq = Big::u(view.pos.margin).add(realized).sub(f);
            r.count("partial-closes");
            r.case(format!("partial|{}|pnl{}|F{}|{}", if view.pos.long_dir { "long" } else { "short" }, sgn(&realized), sgn(&f), fee_cfg(&st.pre.vamms[vi])));
            if eq < Big::i(-1) {
                r.violation(
                    "C04",
                    "R3-partial-close-with-bad-debt",
                    format!("R3|partial|{}", if view.pos.long_dir { "long" } else { "short" }),
                    format!("partial close succeeded with margin {} + realised {} - funding {} = {} < 0", view.pos.margin, realized, f, eq),
                    st.seq,
                );
            }
            return;
        }
        if !path.contains("close_position") {
            r.inconclusive(format!("close succeeded through unexpected path {}", path));
            return;
        }
        r.count("whole-closes");
        let pnl = view.pnl_for(q);
        let e = Big::u(view.pos.margin).add(pnl).sub(f);
        r.case(format!(
            "whole|{}|pnl{}|F{}|shortfall={}|{}",
            if view.pos.long_dir { "long" } else { "short" },
            sgn(&pnl),
            sgn(&f),
            shortfall,
            fee_cfg(&st.pre.vamms[vi])
        ));
        r.sample_once(
            &format!("whole|pnl{}|F{}|shortfall={}", sgn(&pnl), sgn(&f), shortfall),
            json!({"op": short_op(&st.op), "margin": view.pos.margin.to_string(), "open_notional": view.pos.notional.to_string(), "quote_exchanged": q.to_string(),
                   "funding_owed": f.to_string(), "equity": e.to_string(), "paid_to_trader": payout.to_string(), "transfers": st.out.transfers}),
        );
        if e < Big::i(-1) {
            r.violation(
                "C04",
                "R2-closed-with-negative-equity",
                format!("R2|{}", if view.pos.long_dir { "long" } else { "short" }),
                format!("close succeeded with equity {} (margin {} pnl {} funding {})", e, view.pos.margin, pnl, f),
                st.seq,
            );
        } else if !Big::u(payout).within(e.max(Big::zero()), 1) {
            r.violation(
                "C04",
                "R1-payout-not-equity",
                format!("R1|{}|pnl{}|F{}|shortfall={}", if view.pos.long_dir { "long" } else { "short" }, sgn(&pnl), sgn(&f), shortfall),
                format!("paid {} but equity is {} (margin {} + pnl {} - funding {}), quote exchanged {} open notional {}", payout, e, view.pos.margin, pnl, f, q, view.pos.notional),
                st.seq,
            );
        }
        if st.post.pos(vi, sender).is_some() {
            r.violation("C04", "R1-position-survives-close", "R1b".into(), format!("position of {} still exists after a whole close", sender), st.seq);
        }
    }
}

// ------------------------------------------------------------------------------------------
// C05

#[derive(Default)]
pub struct C05 {
    view: Option<PosView>,
    sh: FundingShadow,
}

impl Monitor for C05 {
    fn prop(&self) -> &'static str {
        "C05"
    }
    fn begin(&mut self, w: &World, s0: &Snap, _r: &mut Report) {
        self.sh.begin(w, s0);
    }
    fn pre(&mut self, w: &World, op: &Op, pre: &Snap, _r: &mut Report) {
        self.view = None;
        if let Some((sender, msg, _)) = engine_msg(op) {
            if let eng::ExecuteMsg::WithdrawMargin { vamm, .. } | eng::ExecuteMsg::OpenPosition { vamm, .. } | eng::ExecuteMsg::DepositMargin { vamm, .. } = msg {
                if let Some(vi) = w.vamm_idx(vamm) {
                    self.view = pos_view_sh(w, pre, vi, sender, &mut self.sh);
                }
            }
        }
    }
    fn post(&mut self, w: &World, st: &Step, r: &mut Report) {
        self.sh.observe(w, st);
        self.sh.report(r);
        let Some((sender, msg, funds)) = engine_msg(&st.op) else { return };
        if !st.out.ok {
            return;
        }
        let d = st.pre.eng.decimals;
        match msg {
            eng::ExecuteMsg::OpenPosition { vamm, leverage, .. } => {
                let Some(vi) = w.vamm_idx(vamm) else { return };
                r.eval();
                let lev = leverage.u128();
                let init = st.pre.eng.initial;
                r.count("opens-ok");
                // R2 leverage bounds
                if lev < d || Big::u(lev).mul(Big::u(init)) > Big::u(d).mul(Big::u(d)) {
                    r.violation(
                        "C05",
                        "R2-leverage-out-of-bounds",
                        format!("R2|{}", if lev < d { "below-1" } else { "above-max" }),
                        format!("OpenPosition accepted leverage {} with initial ratio {} (D={})", lev, init, d),
                        st.seq,
                    );
                }
                let maxl = d * d / init.max(1);
                let lev_class = if lev == maxl { "=max" } else if lev + 1 == maxl { "max-1" } else if lev == d { "=1" } else { "mid" };
                let prior = match (&self.view, st.post.pos(vi, sender)) {
                    (None, _) => "fresh",
                    (Some(a), Some(b)) if a.pos.long_dir != b.long_dir => "reversed",
                    (Some(a), Some(b)) if b.size.unsigned_abs() > a.abs_size => "increased",
                    (Some(_), Some(_)) => "reduced",
                    (Some(_), None) => "closed",
                };
                // R1 maintenance after the trade
                if let Some(p) = st.post.pos(vi, sender) {
                    if p.size != 0 {
                        if let Some(v) = pos_view_sh(w, &st.post, vi, sender, &mut self.sh) {
                            if let Some((ratio, which)) = v.ratio_vamm() {
                                r.count("R1-ratio-checked");
                                let maint = st.post.eng.maint;
                                r.case(format!("open|{}|{}|{}|{}", prior, lev_class, which, bucket_ratio_distance(&ratio, maint)));
                                if ratio < Big::u(maint) {
                                    r.violation(
                                        "C05",
                                        "R1-under-maintenance-after-open",
                                        format!("R1|{}|{}", prior, reply_path(w, &st.out)),
                                        format!("after OpenPosition margin ratio {} < maintenance {} (margin {} notional {} funding {})", ratio, maint, p.margin, p.notional, v.funding()),
                                        st.seq,
                                    );
                                }
                                r.sample_once(&format!("open|{}", prior), json!({"op": short_op(&st.op), "post_ratio": ratio.to_string(), "maintenance": maint.to_string(), "pnl_source": which}));
                            } else {
                                r.count("R1-ratio-unquotable");
                            }
                        }
                    }
                }
            }
            eng::ExecuteMsg::WithdrawMargin { vamm, amount } => {
                let Some(vi) = w.vamm_idx(vamm) else { return };
                let Some(view) = self.view.clone() else {
                    r.violation("C05", "R3-withdraw-without-position", "R3|nopos".into(), "withdrawal succeeded without a position".into(), st.seq);
                    return;
                };
                r.eval();
                r.count("withdrawals-ok");
                let a = amount.u128();
                let f = view.funding();
                let wallet = st.post.bal(sender) as i128 - st.pre.bal(sender) as i128;
                if wallet != a as i128 {
                    r.violation("C05", "R3-wallet-delta", "R3|wallet".into(), format!("withdraw {} but wallet changed by {}", a, wallet), st.seq);
                }
                let before = Big::u(view.pos.margin).sub(Big::u(a)).sub(f);
                if before < Big::i(-1) {
                    r.violation(
                        "C05",
                        "R3-withdraw-created-bad-debt",
                        "R3|baddebt".into(),
                        format!("withdraw {} with margin {} funding owed {}", a, view.pos.margin, f),
                        st.seq,
                    );
                }
                if let Some(p) = st.post.pos(vi, sender) {
                    let dm = Big::u(p.margin).sub(Big::u(view.pos.margin));
                    let expect = Big::u(a).add(f).neg();
                    if !dm.within(expect, 1) && before >= Big::zero() {
                        r.violation(
                            "C05",
                            "R3-margin-delta",
                            format!("R3|margin|F{}", sgn(&f)),
                            format!("stored margin changed by {} expected {} (amount {} funding {})", dm, expect, a, f),
                            st.seq,
                        );
                    }
                    // free collateral afterwards: the engine's own query and the monitor's recomputation
                    let fc_q = w.free_collateral(vi, sender).ok();
                    let fc_m = pos_view_sh(w, &st.post, vi, sender, &mut self.sh).and_then(|v| v.free_collateral(st.post.eng.initial));
                    let fcb = fc_m.map(|x| if x.is_zero() { "=0" } else if x <= Big::u(1) { "+1" } else { ">0" }).unwrap_or("?");
                    r.case(format!("withdraw|F{}|fc{}|{}", sgn(&f), fcb, if view.pos.long_dir { "long" } else { "short" }));
                    if let Some(fc) = fc_q {
                        if fc < 0 {
                            r.violation("C05", "R3-free-collateral-negative", "R3|fcq".into(), format!("engine FreeCollateral after withdrawal = {}", fc), st.seq);
                        }
                    }
                    if let Some(fc) = fc_m {
                        r.count("R3-free-collateral-recomputed");
                        if fc < Big::i(-1) {
                            r.violation(
                                "C05",
                                "R3-free-collateral-negative",
                                "R3|fcm".into(),
                                format!("recomputed free collateral after withdrawal = {} (engine query {:?}); view {:?}", fc, fc_q, pos_view(w, &st.post, vi, sender)),
                                st.seq,
                            );
                        }
                    }
                    r.sample_once(&format!("withdraw|F{}", sgn(&f)), json!({"op": short_op(&st.op), "margin_before": view.pos.margin.to_string(), "margin_after": p.margin.to_string(), "funding_owed": f.to_string(), "free_collateral_after": fc_q.map(|x| x.to_string())}));
                } else {
                    r.violation("C05", "R3-position-vanished", "R3|gone".into(), "position disappeared in a withdrawal".into(), st.seq);
                }
            }
            eng::ExecuteMsg::DepositMargin { vamm, amount } => {
                let Some(vi) = w.vamm_idx(vamm) else { return };
                r.eval();
                r.count("deposits-ok");
                let a = amount.u128();
                let wallet = st.pre.bal(sender) as i128 - st.post.bal(sender) as i128;
                let m0 = self.view.as_ref().map(|v| v.pos.margin);
                let m1 = st.post.pos(vi, sender).map(|p| p.margin);
                r.case(format!("deposit|native={}|{}", funds > 0, mag_bucket(a, m0.unwrap_or(0).max(1) * 10)));
                match (m0, m1) {
                    (Some(m0), Some(m1)) => {
                        if m1 as i128 - m0 as i128 != a as i128 || wallet != a as i128 {
                            r.violation(
                                "C05",
                                "R4-deposit-accounting",
                                "R4".into(),
                                format!("deposit {}: margin {} -> {}, wallet decreased by {}", a, m0, m1, wallet),
                                st.seq,
                            );
                        }
                    }
                    _ => {
                        r.violation("C05", "R4-deposit-without-position", "R4|nopos".into(), format!("deposit succeeded, position before {:?} after {:?}", m0, m1), st.seq);
                    }
                }
            }
            _ => {}
        }
    }
}

// ------------------------------------------------------------------------------------------
// C06

#[derive(Default)]
pub struct C06 {
    view: Option<PosView>,
    engine_ratio: Option<i128>,
    sh: FundingShadow,
}

impl Monitor for C06 {
    fn prop(&self) -> &'static str {
        "C06"
    }
    fn begin(&mut self, w: &World, s0: &Snap, _r: &mut Report) {
        self.sh.begin(w, s0);
    }
    fn pre(&mut self, w: &World, op: &Op, pre: &Snap, r: &mut Report) {
        self.view = None;
        self.engine_ratio = None;
        if let Some((_, eng::ExecuteMsg::Liquidate { vamm, trader, .. }, _)) = engine_msg(op) {
            if let Some(vi) = w.vamm_idx(vamm) {
                self.view = pos_view_sh(w, pre, vi, trader, &mut self.sh);
                self.engine_ratio = w.margin_ratio(vi, trader).ok();
                // R0: keep the monitor honest against the engine's public MarginRatio query
                if let (Some(v), Some(er)) = (&self.view, self.engine_ratio) {
                    if v.pos.size != 0 {
                        if let Some((rv, _)) = v.ratio_vamm() {
                            r.count("R0-ratio-compared");
                            if !rv.within(Big::i(er), 1) {
                                r.violation(
                                    "C06",
                                    "R0-margin-ratio-query-disagrees",
                                    "R0".into(),
                                    format!("engine MarginRatio {} vs recomputed {}", er, rv),
                                    0,
                                );
                            }
                        }
                    }
                }
            }
        }
    }
    fn post(&mut self, w: &World, st: &Step, r: &mut Report) {
        self.sh.observe(w, st);
        self.sh.report(r);
        let Some((sender, eng::ExecuteMsg::Liquidate { vamm, trader, .. }, _)) = engine_msg(&st.op) else { return };
        let Some(vi) = w.vamm_idx(vamm) else { return };
        let Some(view) = self.view.clone() else { return };
        if view.pos.size == 0 {
            return;
        }
        let maint = st.pre.eng.maint;
        let Some((ratio, which)) = view.ratio_liq() else {
            r.count("ratio-unquotable");
            return;
        };
        let caller = if sender == trader { "self" } else if sender == "liquidator" { "liquidator" } else { "other" };
        let feed = if w.cfg.feed == FeedKind::Real { "real" } else { "mock" };
        if !st.out.ok {
            if st.out.err_text().contains("overcollateralized") {
                r.eval();
                r.count("refused-by-guard");
                r.case(format!("refused|{}|{}|{}|{}", which, bucket_ratio_distance(&ratio, maint), caller, feed));
            }
            return;
        }
        r.eval();
        let path = reply_path(w, &st.out);
        let partial = path.contains("partial_liquidation");
        r.count(if partial { "partial-liquidations" } else { "full-liquidations" });
        r.case(format!(
            "{}|{}|{}|{}|{}|{}",
            if partial { "partial" } else { "full" },
            if view.pos.long_dir { "long" } else { "short" },
            which,
            bucket_ratio_distance(&ratio, maint),
            caller,
            feed
        ));
        // R1 guard
        if ratio > Big::u(maint) {
            r.violation(
                "C06",
                "R1-liquidated-above-maintenance",
                format!("R1|{}|{}", which, if partial { "partial" } else { "full" }),
                format!("liquidation succeeded with ratio {} ({}) > maintenance {}; engine query said {:?}", ratio, which, maint, self.engine_ratio),
                st.seq,
            );
        }
        let swaps: Vec<SwapEv> = swap_events(w, &st.out).into_iter().filter(|s| s.vamm == vi).collect();
        if swaps.len() != 1 {
            r.inconclusive(format!("liquidation with {} swap events", swaps.len()));
            return;
        }
        let q = swaps[0].quote;
        let d = view.d;
        let fee_ratio = st.pre.eng.liq_fee;
        let half = Big::u(q).mul(Big::u(fee_ratio)).div(Big::u(2 * d));
        let engine = w.engine.to_string();
        let ins = w.insurance.to_string();
        let to_liq = st.out.sum_transfers(&engine, sender);
        let to_ins = st.out.sum_transfers(&engine, &ins);
        let to_trader = if sender == trader { 0 } else { st.out.sum_transfers(&engine, trader) };
        let f = view.funding();
        let side = if view.pos.long_dir { "long" } else { "short" };
        if !partial {
            // R2 full liquidation
            if st.post.pos(vi, trader).is_some() {
                r.violation("C06", "R2-position-not-removed", format!("R2|removed|{}", side), "position still exists after full liquidation".into(), st.seq);
            }
            if !Big::u(to_liq).within(half, 1) {
                r.violation(
                    "C06",
                    "R2-liquidator-fee",
                    format!("R2|fee|{}", side),
                    format!("liquidator received {} expected half of {}*{}/D = {}", to_liq, q, fee_ratio, half),
                    st.seq,
                );
            }
            if to_trader != 0 || (sender != trader && st.post.bal(trader) != st.pre.bal(trader)) {
                r.violation("C06", "R2-trader-paid", format!("R2|trader|{}", side), format!("liquidated trader received {}", to_trader), st.seq);
            }
            let pnl = view.pnl_for(q);
            let rem = Big::u(view.pos.margin).add(pnl).sub(f).sub(Big::u(to_liq)).max(Big::zero());
            // when equity before the fee is negative the fee itself is bad debt: remaining is 0
            let eq_before_fee = Big::u(view.pos.margin).add(pnl).sub(f).max(Big::zero());
            let rem = if eq_before_fee < Big::u(to_liq) { Big::zero() } else { rem };
            if !Big::u(to_ins).within(rem, 1) {
                r.violation(
                    "C06",
                    "R2-remaining-margin-to-insurance",
                    format!("R2|ins|{}|F{}", side, sgn(&f)),
                    format!("insurance fund received {} expected remaining margin {} (margin {} pnl {} funding {} fee {})", to_ins, rem, view.pos.margin, pnl, f, to_liq),
                    st.seq,
                );
            }
            r.sample_once(
                &format!("full|{}|{}", side, which),
                json!({"op": short_op(&st.op), "ratio": ratio.to_string(), "maintenance": maint.to_string(), "quote_exchanged": q.to_string(), "liquidator_got": to_liq.to_string(), "insurance_got": to_ins.to_string(), "transfers": st.out.transfers}),
            );
        } else {
            // R3 partial liquidation
            let p_ratio = st.pre.eng.partial;
            let cut = Big::u(view.abs_size).mul(Big::u(p_ratio)).div(Big::u(d));
            let expect = Big::u(view.abs_size).sub(cut);
            match st.post.pos(vi, trader) {
                None => {
                    r.violation("C06", "R3-partial-removed-position", format!("R3|removed|{}", side), "partial liquidation removed the position".into(), st.seq);
                }
                Some(p) => {
                    let flipped = (p.size > 0) != (view.pos.size > 0) && p.size != 0;
                    if flipped || Big::u(p.size.unsigned_abs()) != expect {
                        r.violation(
                            "C06",
                            "R3-partial-size",
                            format!("R3|size|{}|{}", side, if flipped { "flipped" } else if p.size.unsigned_abs() > view.abs_size { "grew" } else { "wrong-fraction" }),
                            format!("size {} -> {} expected |size| {} (fraction {} of {})", view.pos.size, p.size, expect, p_ratio, view.abs_size),
                            st.seq,
                        );
                    }
                }
            }
            if !Big::u(to_liq).within(half, 1) || !Big::u(to_ins).within(half, 1) {
                r.violation(
                    "C06",
                    "R3-partial-penalty-split",
                    format!("R3|split|{}", side),
                    format!("liquidator got {} insurance got {} expected {} each (quote {} fee ratio {})", to_liq, to_ins, half, q, fee_ratio),
                    st.seq,
                );
            }
            if to_trader != 0 {
                r.violation("C06", "R3-trader-paid", format!("R3|trader|{}", side), format!("liquidated trader received {}", to_trader), st.seq);
            }
            r.sample_once(
                &format!("partial|{}|{}", side, which),
                json!({"op": short_op(&st.op), "ratio": ratio.to_string(), "size_before": view.pos.size.to_string(), "size_after": st.post.pos(vi, trader).map(|p| p.size.to_string()), "liquidator_got": to_liq.to_string(), "insurance_got": to_ins.to_string()}),
            );
        }
    }
}

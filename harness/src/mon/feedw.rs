//! W-PF: the repository's own price feed against a reference list of submissions (price-feed part of C18).
use crate::ops::*;
use crate::rng::Rng;
use crate::world::*;
use cosmwasm_std::{Timestamp, Uint128};
use margined_perp::margined_pricefeed as pf;
use serde::Deserialize;
use serde_json::json;

#[derive(Deserialize, Debug, Clone)]
pub struct PriceData {
    pub round_id: Uint128,
    pub price: Uint128,
    pub timestamp: Timestamp,
}

pub fn feed_cfg(rng: &mut Rng) -> DeployCfg {
    let d = 1_000_000u128;
    DeployCfg {
        collateral: Collateral::Cw20 { decimals: 6 },
        feed: FeedKind::Real,
        vamms: vec![VammCfg { quote_reserve: 1000 * d, base_reserve: 100 * d, toll: 0, spread: 0, fluct: 0, funding_period: 3600, decimals: None, live: true, unwired: false, foreign_fund: false }],
        initial_ratio: 50_000,
        maint_ratio: 50_000,
        liq_fee: 25_000,
        partial_ratio: 0,
        trader_funds: 1_000_000,
        insurance_funds: 0,
        oracle_price: rng.u128_range(1, 100 * d),
        vamm_engine_override: None,
    }
}

#[derive(Default)]
pub struct FeedMon;

impl Monitor for FeedMon {
    fn prop(&self) -> &'static str {
        "C18"
    }
    fn post(&mut self, w: &World, st: &Step, r: &mut Report) {
        let subs = &w.feed_hist;
        let rounds = subs.len();
        if rounds == 0 {
            return;
        }
        let now = st.post.time;
        // latest
        r.eval();
        match w.q::<PriceData, _>(&w.feed, &pf::QueryMsg::GetPrice { key: KEY.into() }) {
            Ok(p) => {
                let (lp, lt) = subs[rounds - 1];
                r.count("feed-latest-checked");
                if p.price.u128() != lp || p.timestamp.seconds() != lt {
                    r.violation("C18", "R3-feed-latest", "R3f|latest".into(), format!("GetPrice = ({}, {}) last submission ({}, {})", p.price, p.timestamp.seconds(), lp, lt), st.seq);
                }
            }
            Err(e) => {
                r.violation("C18", "R3-feed-latest", "R3f|latest-err".into(), format!("GetPrice failed with {} although {} prices were submitted", e, rounds), st.seq);
            }
        }
        // n rounds back, for every n in [0, rounds+1]
        for n in 0..=(rounds + 1) {
            let res = w.q::<PriceData, _>(&w.feed, &pf::QueryMsg::GetPreviousPrice { key: KEY.into(), num_round_back: Uint128::new(n as u128) });
            r.eval();
            let class = if n == 0 { "n=0" } else if n + 1 == rounds { "n=rounds-1" } else if n == rounds { "n=rounds" } else if n > rounds { "n>rounds" } else { "mid" };
            r.case(format!("feed|previous|{}|{}", class, if res.is_ok() { "ok" } else { "err" }));
            match res {
                Ok(p) => {
                    if n >= rounds {
                        r.violation(
                            "C18",
                            "R3-feed-previous-beyond-history",
                            format!("R3f|previous|{}", class),
                            format!("GetPreviousPrice{{{}}} returned (round {}, price {}) although only {} prices were submitted", n, p.round_id, p.price, rounds),
                            st.seq,
                        );
                    } else {
                        let (ep, et) = subs[rounds - 1 - n];
                        r.count("feed-previous-checked");
                        if p.price.u128() != ep || p.timestamp.seconds() != et {
                            r.violation("C18", "R3-feed-previous-value", "R3f|previous|value".into(), format!("GetPreviousPrice{{{}}} = ({}, {}) expected ({}, {})", n, p.price, p.timestamp.seconds(), ep, et), st.seq);
                        }
                    }
                }
                Err(e) => {
                    if n < rounds {
                        r.violation("C18", "R3-feed-previous-missing", "R3f|previous|missing".into(), format!("GetPreviousPrice{{{}}} failed ({}) with {} submissions", n, e, rounds), st.seq);
                    } else {
                        r.count("feed-previous-beyond-refused");
                    }
                }
            }
        }
        // TWAP over windows shorter / equal / longer than the history, and starting exactly at a submission
        let t0 = subs[0].1;
        let hist = now.saturating_sub(t0);
        let mut ivs: Vec<u64> = vec![1, 60, 900, 3600, hist.max(1), hist + 1, hist + 5000, (hist / 2).max(1)];
        for (_, t) in subs.iter().rev().take(3) {
            if now > *t {
                ivs.push(now - *t);
            }
        }
        for iv in ivs {
            let Ok(v) = w.q::<Uint128, _>(&w.feed, &pf::QueryMsg::GetTwapPrice { key: KEY.into(), interval: iv }) else {
                r.count("feed-twap-errors");
                continue;
            };
            let base = now.saturating_sub(iv);
            let mut lo = u128::MAX;
            let mut hi = 0u128;
            let mut n_in = 0;
            for (k, (p, t)) in subs.iter().enumerate() {
                let end = subs.get(k + 1).map(|s| s.1).unwrap_or(u64::MAX);
                if *t <= now && end >= base {
                    lo = lo.min(*p);
                    hi = hi.max(*p);
                    n_in += 1;
                }
            }
            if n_in == 0 {
                // window entirely before the first submission: the only candidate is the first price
                lo = subs[0].0;
                hi = subs[0].0;
            }
            r.eval();
            r.count("feed-twap-checked");
            let class = if iv > hist { "longer" } else if iv == hist { "equal" } else { "shorter" };
            r.case(format!("feed|twap|{}|subs={}", class, (n_in as u32).min(5)));
            if v.u128() + 1 < lo || v.u128() > hi + 1 {
                r.violation(
                    "C18",
                    "R3-feed-twap-outside-submissions",
                    format!("R3f|twap|{}", class),
                    format!("feed TWAP over {}s = {} outside [{}, {}] of the {} overlapping submissions", iv, v, lo, hi, n_in),
                    st.seq,
                );
            }
            if n_in > 1 && lo != hi {
                r.sample_once(&format!("feed|twap|{}", class), json!({"interval": iv, "twap": v.to_string(), "min": lo.to_string(), "max": hi.to_string(), "overlapping_submissions": n_in}));
            }
        }
    }
}

pub fn run_feed_history(rng: &mut Rng, h: &mut History, r: &mut Report, steps: u64) {
    let mut last_ts = h.w.feed_hist.last().map(|x| x.1).unwrap_or(0);
    // one history in ten submits prices near the top of the 128-bit range: price x seconds then no longer fits and the
    // feed must refuse to answer (or answer correctly) rather than return a clamped / wrapped figure
    let huge = rng.chance(1, 10);
    if huge {
        r.count("feed-histories-with-prices-near-2^128");
    }
    for _ in 0..steps {
        let now = h.w.now();
        match rng.below(10) {
            0..=4 => {
                // non-decreasing timestamp not in the future
                let ts = match rng.below(4) {
                    0 => last_ts,
                    1 => now,
                    _ => rng.range(last_ts, now.max(last_ts)),
                };
                let base = h.w.feed_hist.last().map(|x| x.0).unwrap_or(1_000_000);
                // the feed accepts any price, zero included ("no answer" rounds of an upstream aggregator): a zero
                // round is an observation like any other for the latest / previous / TWAP queries
                let price = if huge {
                    rng.u128_range(u128::MAX / 100_000, u128::MAX / 20)
                } else {
                    match rng.below(12) {
                    0..=2 => base,
                    3..=5 => rng.u128_range(1, 1_000_000_000),
                    6 => 0,
                    _ if base == 0 => rng.u128_range(1, 1_000_000_000),
                    _ => (base.saturating_mul(rng.u128_range(80, 125)) / 100).max(1),
                    }
                };
                h.step(Op::Feed { sender: "owner".into(), msg: pf::ExecuteMsg::AppendPrice { key: KEY.into(), price: Uint128::new(price), timestamp: ts } }, r);
                last_ts = h.w.feed_hist.last().map(|x| x.1).unwrap_or(last_ts);
            }
            5 => {
                let k = rng.range(1, 4) as usize;
                let mut prices = vec![];
                let mut tss = vec![];
                let mut t = last_ts;
                for _ in 0..k {
                    t = rng.range(t, now.max(t));
                    prices.push(Uint128::new(if huge { rng.u128_range(u128::MAX / 100_000, u128::MAX / 20) } else if rng.chance(1, 10) { 0 } else { rng.u128_range(1, 50_000_000) }));
                    tss.push(t);
                }
                h.step(Op::Feed { sender: "owner".into(), msg: pf::ExecuteMsg::AppendMultiplePrice { key: KEY.into(), prices, timestamps: tss } }, r);
                last_ts = h.w.feed_hist.last().map(|x| x.1).unwrap_or(last_ts);
            }
            6 => {
                // forged sender must be refused (also covered by C09)
                h.step(Op::Feed { sender: "stranger".into(), msg: pf::ExecuteMsg::AppendPrice { key: KEY.into(), price: Uint128::new(1), timestamp: now } }, r);
            }
            _ => {
                let (b, s) = *rng.pick(&[(1u64, 0u64), (1, 1), (1, 30), (10, 600), (50, 3600), (1000, 86400), (1, 900)]);
                h.step(Op::Advance { blocks: b, secs: s, nanos: 0 }, r);
            }
        }
    }
    h.finish(r);
}

//! Lifetime cash-flow ledger (auxiliary oracle of C04): over the whole life of a position — from the transaction
//! that created the record to the whole-position ClosePosition that removes it — everything the trader put in as
//! margin must come back except their trading result and the funding they were charged:
//!
//!     sum(net margin paid in) + sum(signed quote exchanged with the vAMM) - sum(funding charged) = 0   (+- rounding)
//!
//! where, per transaction of the owner, net margin paid in = (what left the trader's wallet) - (what reached it)
//! - (trading fees routed to the insurance fund / fee pool), the signed quote is +X when the trader sold base for X
//! quote and -X when they bought base for X quote (read from the vAMM's swap events of that transaction), and the
//! funding charged is the monitor's own F = trunc((cum - checkpoint) * size / D) before each settling operation.
//! The per-operation realised PnL (pro-rata share of the unrealised PnL) cancels out of this sum, so the identity
//! does not depend on how the engine splits PnL between margin and open notional at a reduction - but it breaks as
//! soon as a partial close / reduction / reversal books a wrong open notional or margin that a later close cashes
//! out. Each step on its own can look consistent with the (corrupted) stored record; the life as a whole cannot.
//!
//! Lives that contain anything the identity does not speak about are dropped, never reported: a liquidation of the
//! position, an operation on it while its equity was negative (the engine clamps margin at zero and books bad debt),
//! a change made by another account, a reported bad debt.
use super::calc::*;
use super::util::*;
use crate::big::Big;
use crate::ops::*;
use crate::world::*;
use margined_perp::margined_engine as eng;
use serde_json::json;
use std::collections::BTreeMap;

struct Acc {
    margin_in: Big,
    quote: Big,
    funding: Big,
    ops: u32,
    /// rounding allowance: per operation 2 raw units plus twice the quote value of one raw base unit (the engine's
    /// pro-rata split at a reduction can leave a remaining open notional of a few raw base units' worth with the wrong
    /// sign - dust, see DESIGN 10.9)
    tol: u128,
    kinds: Vec<&'static str>,
    taint: Option<&'static str>,
}

impl Acc {
    fn new() -> Acc {
        Acc { margin_in: Big::zero(), quote: Big::zero(), funding: Big::zero(), ops: 0, tol: 2, kinds: vec![], taint: None }
    }
}

#[derive(Default)]
pub struct Life {
    sh: FundingShadow,
    acc: BTreeMap<(usize, String), Acc>,
    /// (vamm, trader, funding owed before the operation, equity clearly negative before the operation)
    pend: Option<(usize, String, Big, bool)>,
}

fn owner_op(op: &Op) -> Option<(&str, &eng::ExecuteMsg)> {
    let (sender, msg, _) = engine_msg(op)?;
    match msg {
        eng::ExecuteMsg::OpenPosition { .. } | eng::ExecuteMsg::ClosePosition { .. } | eng::ExecuteMsg::DepositMargin { .. } | eng::ExecuteMsg::WithdrawMargin { .. } => Some((sender, msg)),
        _ => None,
    }
}

impl Monitor for Life {
    fn prop(&self) -> &'static str {
        "LIFE"
    }
    fn begin(&mut self, w: &World, s0: &Snap, _r: &mut Report) {
        self.sh.begin(w, s0);
        self.acc.clear();
        self.pend = None;
    }
    fn pre(&mut self, w: &World, op: &Op, pre: &Snap, _r: &mut Report) {
        self.pend = None;
        let Some((sender, _)) = owner_op(op) else { return };
        let Some(vi) = op.engine_vamm().and_then(|a| w.vamm_idx(a)) else { return };
        let Some(view) = pos_view_sh(w, pre, vi, sender, &mut self.sh) else { return };
        let f = if view.abs_size == 0 { Big::zero() } else { view.funding() };
        // equity at spot before the operation; an operation on an under-water position is outside the identity
        let under = match view.spot_notional {
            Some(n) => Big::u(view.pos.margin).add(view.pnl_for(n).min(Big::zero())).sub(f.clone()).is_neg(),
            None => true,
        };
        self.pend = Some((vi, sender.to_string(), f, under));
    }
    fn post(&mut self, w: &World, st: &Step, r: &mut Report) {
        let pend = self.pend.take();
        let (pre, post) = (&st.pre, &st.post);
        // anything another account did to a tracked position ends its life without a verdict
        if st.out.ok {
            let sender = st.op.sender().unwrap_or("");
            let touched: Vec<(usize, String)> = self.acc.keys().filter(|k| k.1 != sender && pre.pos(k.0, &k.1) != post.pos(k.0, &k.1)).cloned().collect();
            for k in touched {
                self.acc.remove(&k);
                r.count("life:dropped:changed-by-another-account-or-liquidated");
            }
        }
        // a liquidation (by anybody, the trader included) ends the life without a verdict
        if let (true, Some((_, eng::ExecuteMsg::Liquidate { vamm, trader, .. }, _))) = (st.out.ok, engine_msg(&st.op)) {
            if let Some(vi) = w.vamm_idx(vamm) {
                if self.acc.remove(&(vi, trader.clone())).is_some() {
                    r.count("life:dropped:changed-by-another-account-or-liquidated");
                }
            }
        }
        if let (true, Some((sender, msg))) = (st.out.ok, owner_op(&st.op)) {
            if let Some(vi) = st.op.engine_vamm().and_then(|a| w.vamm_idx(a)) {
                let key = (vi, sender.to_string());
                let had = pre.pos(vi, sender).is_some();
                let has = post.pos(vi, sender).is_some();
                if had || has {
                    if !had {
                        self.acc.insert(key.clone(), Acc::new());
                    }
                    if let Some(a) = self.acc.get_mut(&key) {
                        let to_trader: u128 = st.out.transfers.iter().filter(|t| t.to == sender).map(|t| t.amount).sum();
                        let from_trader: u128 = st.out.transfers.iter().filter(|t| t.from == sender).map(|t| t.amount).sum();
                        let fee_sinks = [pre.eng.insurance_fund.clone(), pre.eng.fee_pool.clone()];
                        let fees: u128 = st.out.transfers.iter().filter(|t| fee_sinks.contains(&t.to) && t.from != pre.eng.insurance_fund).map(|t| t.amount).sum();
                        // net margin that entered the vault from this trader in this transaction (negative: paid out).
                        // Only fees the trader funded are taken out of what they paid: a native-collateral close that
                        // attaches nothing has its fee paid by the vault (outside the given properties, DESIGN 10.2) and
                        // that fee is then no part of the trader's cash flow
                        let fees = fees.min(from_trader);
                        a.margin_in = a.margin_in.clone().add(Big::u(from_trader)).sub(Big::u(to_trader)).sub(Big::u(fees));
                        for ev in swap_events(w, &st.out) {
                            if ev.vamm != vi {
                                continue;
                            }
                            // input swap adding quote / output swap removing base: the trader buys base and pays quote
                            let buys = ev.input == ev.add;
                            a.quote = if buys { a.quote.clone().sub(Big::u(ev.quote)) } else { a.quote.clone().add(Big::u(ev.quote)) };
                        }
                        let settles = !matches!(msg, eng::ExecuteMsg::DepositMargin { .. });
                        match &pend {
                            Some((pv, pt, f, under)) if *pv == vi && pt == sender => {
                                if settles && had {
                                    a.funding = a.funding.clone().add(f.clone());
                                }
                                if *under && had {
                                    a.taint = Some("operation-on-negative-equity");
                                }
                            }
                            _ => {
                                if had {
                                    a.taint = Some("no-pre-view");
                                }
                            }
                        }
                        for ev in &st.out.events {
                            if ev.ty == "wasm" && attr(ev, "_contract_addr") == Some(w.engine.as_str()) {
                                if let Some(b) = attr(ev, "bad_debt") {
                                    if b != "0" {
                                        a.taint = Some("bad-debt-reported");
                                    }
                                }
                            }
                        }
                        a.ops += 1;
                        let vs = &pre.vamms[vi];
                        a.tol = a.tol.saturating_add(2 + 2 * (vs.q / vs.b.max(1) + 1));
                        a.kinds.push(st.op.kind());
                        if std::env::var("PERPMON_TRACE").is_ok() {
                            eprintln!("   life {:?} step {} {}: from {} to {} fees {} -> margin_in {} quote {} funding {} path {}", key, st.seq, st.op.kind(), from_trader, to_trader, fees, a.margin_in, a.quote, a.funding, reply_path(w, &st.out));
                            eprintln!("        pre {:?}\n        post {:?}\n        swaps {:?}", pre.pos(vi, sender), post.pos(vi, sender), swap_events(w, &st.out));
                        }
                        // the life ends when a whole-position ClosePosition removes the record
                        if had && !has {
                            let a = self.acc.remove(&key).unwrap();
                            let whole_close = matches!(msg, eng::ExecuteMsg::ClosePosition { .. }) && reply_path(w, &st.out).starts_with("close_position");
                            if let Some(t) = a.taint {
                                r.count(&format!("life:dropped:{}", t));
                            } else if !whole_close {
                                r.count("life:dropped:record-removed-by-something-else");
                            } else {
                                r.eval();
                                r.count("life:closed-lives-checked");
                                let residue = a.margin_in.clone().add(a.quote.clone()).sub(a.funding.clone());
                                let tol = a.tol;
                                let mut ks = a.kinds.clone();
                                ks.sort();
                                ks.dedup();
                                r.case(format!("life|ops={}|{}|F{}", a.ops.min(6), ks.join("+"), if a.funding.is_zero() { "0" } else if a.funding.is_neg() { "-" } else { "+" }));
                                if residue.abs() > Big::u(tol) {
                                    let partial = a.kinds.iter().zip(a.kinds.iter().skip(1)).any(|(x, y)| *x == "close" && *y == "close") || a.kinds.iter().filter(|k| **k == "close").count() > 1;
                                    r.violation(
                                        "LIFE",
                                        "R1-lifetime-cash-flow",
                                        format!("R1|{}|{}", if partial { "with-partial-close" } else { "no-partial-close" }, if residue.is_neg() { "trader-overpaid" } else { "trader-underpaid" }),
                                        format!(
                                            "over the life of {}'s position on vamm{} ({} operations: {:?}) net margin paid in {} + quote exchanged {} - funding charged {} = {} (tolerance {})",
                                            sender, vi, a.ops, a.kinds, a.margin_in, a.quote, a.funding, residue, tol
                                        ),
                                        st.seq,
                                    );
                                }
                                r.sample_once("life", json!({"trader": sender, "vamm": vi, "ops": a.kinds, "margin_in": a.margin_in.to_string(), "quote": a.quote.to_string(), "funding": a.funding.to_string()}));
                            }
                        }
                    }
                }
            }
        }
        self.sh.observe(w, st);
        self.sh.report(r);
    }
}

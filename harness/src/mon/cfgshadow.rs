//! Configuration shadow (auxiliary oracle of every property whose monitor reads configuration values).
//!
//! Monitors compute their expectations from ratios, limits, periods and addresses. If they took those from what the
//! contracts report about themselves, a change that stores a wrong value (at instantiation or in an update) would
//! corrupt the expectation together with the behaviour. This monitor keeps its own record of what each contract was
//! GIVEN - the instantiate messages of the deployment and every field of every accepted UpdateConfig / UpdateOwner /
//! UpdatePauser - and reports the first step after which a contract reports anything else. While it is silent,
//! "reported configuration" and "configuration as given" are the same thing, so the other monitors may read either.
use crate::ops::*;
use crate::world::*;
use margined_perp::margined_engine as eng;
use margined_perp::margined_vamm as vm;
use std::collections::BTreeSet;

#[derive(Clone, Debug, PartialEq)]
struct VammGiven {
    toll: u128,
    spread: u128,
    fluct: u128,
    funding_period: u64,
    decimals: u128,
    twap_interval: u64,
    holding_cap: u128,
    oi_cap: u128,
    engine: String,
    insurance: String,
    pricefeed: String,
    owner: String,
}

#[derive(Default)]
pub struct CfgShadow {
    eng: Option<(u128, u128, u128, u128, String, String, String, String)>, // initial, maint, partial, liq_fee, owner, insurance, fee_pool, pauser
    vamms: Vec<VammGiven>,
    reported: BTreeSet<String>,
}

impl CfgShadow {
    fn diff(&mut self, s: &Snap, step: usize, what: &str, r: &mut Report) {
        let mut bad: Vec<(String, String)> = vec![];
        if let Some((i, m, p, l, o, ins, fp, pa)) = &self.eng {
            let e = &s.eng;
            let mut chk = |name: &str, given: String, rep: String| {
                if given != rep {
                    bad.push((format!("engine|{}", name), format!("engine {} given {} reported {}", name, given, rep)));
                }
            };
            chk("initial_margin_ratio", i.to_string(), e.initial.to_string());
            chk("maintenance_margin_ratio", m.to_string(), e.maint.to_string());
            chk("partial_liquidation_ratio", p.to_string(), e.partial.to_string());
            chk("liquidation_fee", l.to_string(), e.liq_fee.to_string());
            chk("owner", o.clone(), e.owner.clone());
            chk("insurance_fund", ins.clone(), e.insurance_fund.clone());
            chk("fee_pool", fp.clone(), e.fee_pool.clone());
            chk("pauser", pa.clone(), e.pauser.clone());
        }
        for (k, g) in self.vamms.iter().enumerate() {
            let Some(v) = s.vamms.get(k) else { continue };
            let mut chk = |name: &str, given: String, rep: String| {
                if given != rep {
                    bad.push((format!("vamm|{}", name), format!("vamm{} {} given {} reported {}", k, name, given, rep)));
                }
            };
            chk("toll_ratio", g.toll.to_string(), v.toll.to_string());
            chk("spread_ratio", g.spread.to_string(), v.spread.to_string());
            chk("fluctuation_limit_ratio", g.fluct.to_string(), v.fluct.to_string());
            chk("funding_period", g.funding_period.to_string(), v.funding_period.to_string());
            chk("decimals", g.decimals.to_string(), v.decimals.to_string());
            chk("spot_price_twap_interval", g.twap_interval.to_string(), v.twap_interval.to_string());
            chk("base_asset_holding_cap", g.holding_cap.to_string(), v.holding_cap.to_string());
            chk("open_interest_notional_cap", g.oi_cap.to_string(), v.oi_cap.to_string());
            chk("margin_engine", g.engine.clone(), v.cfg_engine.clone());
            chk("insurance_fund", g.insurance.clone(), v.cfg_insurance.clone());
            chk("pricefeed", g.pricefeed.clone(), v.cfg_pricefeed.clone());
            chk("owner", g.owner.clone(), v.owner.clone());
        }
        for (sig, detail) in bad {
            // one report per field and history: the mismatch persists on every later step
            if self.reported.insert(sig.clone()) {
                r.violation("CFG", "R0-configuration-not-as-given", format!("R0cfg|{}|{}", sig, what), detail, step);
            }
        }
    }
}

impl Monitor for CfgShadow {
    fn prop(&self) -> &'static str {
        "CFG"
    }
    fn begin(&mut self, w: &World, s0: &Snap, r: &mut Report) {
        let c = &w.cfg;
        self.reported.clear();
        self.eng = Some((c.initial_ratio, c.maint_ratio, c.partial_ratio, c.liq_fee, "owner".into(), w.insurance.to_string(), w.fee_pool.to_string(), "pauser".into()));
        let d = w.d;
        self.vamms = c
            .vamms
            .iter()
            .enumerate()
            .map(|(k, v)| VammGiven {
                toll: v.toll,
                spread: v.spread,
                fluct: v.fluct,
                funding_period: v.funding_period,
                decimals: v.decimals.map(pow10).unwrap_or(d),
                // not part of the instantiate message (a constant default): taken as reported at deployment, tracked afterwards
                twap_interval: s0.vamms.get(k).map(|x| x.twap_interval).unwrap_or(3600),
                holding_cap: 0,
                oi_cap: 0,
                engine: if v.unwired { String::new() } else { c.vamm_engine_override.clone().unwrap_or_else(|| w.engine.to_string()) },
                insurance: if v.unwired {
                    String::new()
                } else if v.foreign_fund && !v.live {
                    // (re-pointed by its owner as part of the deployment)
                    w.insurance2.as_ref().map(|a| a.to_string()).unwrap_or_else(|| w.insurance.to_string())
                } else {
                    w.insurance.to_string()
                },
                pricefeed: w.feed.to_string(),
                owner: "owner".into(),
            })
            .collect();
        r.count("cfg-shadow:deployments-compared-with-their-instantiate-messages");
        self.diff(s0, 0, "instantiate", r);
    }
    fn post(&mut self, _w: &World, st: &Step, r: &mut Report) {
        if st.out.ok {
            match &st.op {
                Op::Engine { msg: eng::ExecuteMsg::UpdateConfig { owner, insurance_fund, fee_pool, initial_margin_ratio, maintenance_margin_ratio, partial_liquidation_ratio, liquidation_fee }, .. } => {
                    if let Some(e) = self.eng.as_mut() {
                        if let Some(x) = initial_margin_ratio {
                            e.0 = x.u128();
                        }
                        if let Some(x) = maintenance_margin_ratio {
                            e.1 = x.u128();
                        }
                        if let Some(x) = partial_liquidation_ratio {
                            e.2 = x.u128();
                        }
                        if let Some(x) = liquidation_fee {
                            e.3 = x.u128();
                        }
                        if let Some(x) = owner {
                            e.4 = x.clone();
                        }
                        if let Some(x) = insurance_fund {
                            e.5 = x.clone();
                        }
                        if let Some(x) = fee_pool {
                            e.6 = x.clone();
                        }
                    }
                    r.count("cfg-shadow:accepted-updates-recorded");
                }
                Op::Engine { msg: eng::ExecuteMsg::UpdatePauser { pauser }, .. } => {
                    if let Some(e) = self.eng.as_mut() {
                        e.7 = pauser.clone();
                    }
                }
                Op::Vamm { vamm, msg: vm::ExecuteMsg::UpdateConfig { base_asset_holding_cap, open_interest_notional_cap, toll_ratio, spread_ratio, fluctuation_limit_ratio, margin_engine, insurance_fund, pricefeed, spot_price_twap_interval }, .. } => {
                    if let Some(g) = self.vamms.get_mut(*vamm) {
                        if let Some(x) = base_asset_holding_cap {
                            g.holding_cap = x.u128();
                        }
                        if let Some(x) = open_interest_notional_cap {
                            g.oi_cap = x.u128();
                        }
                        if let Some(x) = toll_ratio {
                            g.toll = x.u128();
                        }
                        if let Some(x) = spread_ratio {
                            g.spread = x.u128();
                        }
                        if let Some(x) = fluctuation_limit_ratio {
                            g.fluct = x.u128();
                        }
                        if let Some(x) = margin_engine {
                            g.engine = x.clone();
                        }
                        if let Some(x) = insurance_fund {
                            g.insurance = x.clone();
                        }
                        if let Some(x) = pricefeed {
                            g.pricefeed = x.clone();
                        }
                        if let Some(x) = spot_price_twap_interval {
                            g.twap_interval = *x;
                        }
                    }
                    r.count("cfg-shadow:accepted-updates-recorded");
                }
                Op::Vamm { vamm, msg: vm::ExecuteMsg::UpdateOwner { owner }, .. } => {
                    if let Some(g) = self.vamms.get_mut(*vamm) {
                        g.owner = owner.clone();
                    }
                }
                _ => {}
            }
        }
        let what = st.op.kind();
        self.diff(&st.post, st.seq, what, r);
    }
}

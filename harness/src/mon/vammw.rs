//! W-VAMM: direct swap storms against a vAMM whose margin engine is a harness account, and the
//! vAMM-level part of C17 (quotes == execution, limits honoured).
use super::util::*;
use crate::ops::*;
use crate::rng::Rng;
use crate::world::*;
use cosmwasm_std::Uint128;
use margined_perp::margined_vamm as vm;
use serde_json::json;

pub const DRIVER: &str = "vammdriver";

fn u(v: u128) -> Uint128 {
    Uint128::new(v)
}

pub fn vamm_cfg(rng: &mut Rng) -> DeployCfg {
    let dec = *rng.pick(&[6u8, 6, 8, 9, 12, 18]);
    let d = pow10(dec);
    let maxprod = u128::MAX / 8;
    let room = maxprod / d / d; // >= ~40 for 18 decimals
    let ub = rng.log_uniform(1, room.min(1_000_000_000_000));
    let b = d * ub;
    let uq_max = (maxprod / b / d).max(1);
    let uq = rng.log_uniform(1, uq_max.min(1_000_000_000_000));
    let q = d * uq;
    DeployCfg {
        collateral: Collateral::Cw20 { decimals: 6 },
        feed: FeedKind::Mock,
        vamms: vec![VammCfg {
            quote_reserve: q,
            base_reserve: b,
            toll: 0,
            spread: 0,
            fluct: if rng.chance(1, 4) { *rng.pick(&[d / 100, d / 20, d / 5]) } else { 0 },
            funding_period: 3600,
            decimals: Some(dec),
            live: true,
            unwired: false,
            foreign_fund: false,
        }],
        initial_ratio: 50_000,
        maint_ratio: 50_000,
        liq_fee: 25_000,
        partial_ratio: 0,
        trader_funds: 1_000_000,
        insurance_funds: 0,
        oracle_price: (q / ub).max(1),
        vamm_engine_override: Some(DRIVER.to_string()),
    }
}

/// vAMM-level C17 monitor
#[derive(Default)]
pub struct VammLevel {
    quote: Option<Result<u128, String>>,
}

impl Monitor for VammLevel {
    fn prop(&self) -> &'static str {
        "C17"
    }
    fn pre(&mut self, w: &World, op: &Op, _pre: &Snap, _r: &mut Report) {
        self.quote = None;
        if let Op::Vamm { vamm, msg, .. } = op {
            match msg {
                vm::ExecuteMsg::SwapInput { direction, quote_asset_amount, .. } => {
                    self.quote = Some(w.q_vamm_u(*vamm, &vm::QueryMsg::InputAmount { direction: direction.clone(), amount: *quote_asset_amount }));
                }
                vm::ExecuteMsg::SwapOutput { direction, base_asset_amount, .. } => {
                    self.quote = Some(w.q_vamm_u(*vamm, &vm::QueryMsg::OutputAmount { direction: direction.clone(), amount: *base_asset_amount }));
                }
                _ => {}
            }
        }
    }
    fn post(&mut self, w: &World, st: &Step, r: &mut Report) {
        let Op::Vamm { vamm, msg, sender } = &st.op else { return };
        if sender != DRIVER {
            return;
        }
        let (a, b) = (&st.pre.vamms[*vamm], &st.post.vamms[*vamm]);
        let (input, add, amount, limit) = match msg {
            vm::ExecuteMsg::SwapInput { direction, quote_asset_amount, base_asset_limit, .. } => (true, *direction == vm::Direction::AddToAmm, quote_asset_amount.u128(), base_asset_limit.u128()),
            vm::ExecuteMsg::SwapOutput { direction, base_asset_amount, quote_asset_limit } => (false, *direction == vm::Direction::AddToAmm, base_asset_amount.u128(), quote_asset_limit.u128()),
            _ => return,
        };
        let Some(quote) = self.quote.clone() else { return };
        if amount == 0 {
            // a zero-amount call exchanges nothing; it is not a swap in the sense of the property
            r.count("vamm-zero-amount-noops");
            return;
        }
        let kind = format!("{}|{}", if input { "in" } else { "out" }, if add { "add" } else { "rem" });
        let limit_err = st.out.err_text().contains("asset amount limit");
        match quote {
            Err(e) => {
                // the query cannot price it; the swap must not succeed either
                r.eval();
                r.case(format!("vamm|{}|unquotable|{}", kind, outcome(&st.out)));
                if st.out.ok {
                    r.violation("C17", "R1-unquotable-swap-executed", format!("R1v|{}|unquotable", kind), format!("quote failed ({}) but the swap executed", e), st.seq);
                }
            }
            Ok(q) => {
                r.eval();
                r.count("vamm-swaps-quoted");
                // does the trader receive (>= limit) or give (<= limit)?
                let receives = (input && add) || (!input && add);
                let satisfied = limit == 0 || if receives { q >= limit } else { q <= limit };
                let rel = if limit == 0 { "nolimit" } else if q == limit { "=" } else if satisfied { "slack" } else { "violated" };
                r.case(format!("vamm|{}|limit{}|{}|{}", kind, rel, mag_bucket(amount, if input { a.q } else { a.b }), outcome(&st.out)));
                if limit != 0 {
                    r.count("vamm-limit-swaps");
                }
                if st.out.ok {
                    // R1 executed == quoted, requested side moves by exactly the request
                    let legs = swap_events(w, &st.out);
                    let ev_ok = legs.len() == 1 && if input { legs[0].quote == amount && legs[0].base == q } else { legs[0].base == amount && legs[0].quote == q };
                    use crate::big::Big;
                    let (dq, db) = (Big::u(b.q).sub(Big::u(a.q)), Big::u(b.b).sub(Big::u(a.b)));
                    // input: direction applies to quote; output: direction applies to base
                    let (eq, eb) = if input {
                        if add { (Big::u(amount), Big::u(q).neg()) } else { (Big::u(amount).neg(), Big::u(q)) }
                    } else if add {
                        (Big::u(q).neg(), Big::u(amount))
                    } else {
                        (Big::u(q), Big::u(amount).neg())
                    };
                    if !ev_ok || dq != eq || db != eb {
                        r.violation(
                            "C17",
                            "R1-quote-differs-from-execution",
                            format!("R1v|{}", kind),
                            format!("requested {} quoted {}; events {:?}; reserve deltas ({}, {}) expected ({}, {})", amount, q, legs.iter().map(|l| (l.quote, l.base)).collect::<Vec<_>>(), dq, db, eq, eb),
                            st.seq,
                        );
                    }
                    if !satisfied {
                        r.violation("C17", "R2-limit-ignored", format!("R2v|{}|ignored", kind), format!("limit {} but the swap exchanged {}", limit, q), st.seq);
                    }
                    r.sample_once(&format!("vamm|{}|{}", kind, rel), json!({"op": short_op(&st.op), "quoted": q.to_string(), "reserves_before": [a.q.to_string(), a.b.to_string()], "reserves_after": [b.q.to_string(), b.b.to_string()]}));
                } else if satisfied && limit_err {
                    r.violation("C17", "R2-limit-rejected-although-satisfied", format!("R2v|{}|rejected|{}", kind, rel), format!("limit {} satisfied by {} yet: {}", limit, q, st.out.err_text()), st.seq);
                } else if !satisfied {
                    r.count("vamm-limit-rejections");
                }
            }
        }
    }
}

pub fn run_vamm_history(rng: &mut Rng, h: &mut History, r: &mut Report, steps: u64) {
    let v = 0usize;
    for _ in 0..steps {
        let s = h.last.vamms[v].clone();
        match rng.below(20) {
            0..=7 => {
                let add = rng.chance(1, 2);
                let amt = match rng.below(10) {
                    0 => rng.u128_range(1, 9),
                    1 => s.q / 2 + rng.u128_below(s.q / 2 + 1),
                    2 => s.q - 1,
                    3 => s.q / 1000 * 999,
                    _ => rng.log_uniform(1, s.q.max(2)),
                };
                let quote = h.w.input_amount(v, add, amt).unwrap_or(0);
                let limit = match rng.below(6) {
                    0 => quote.saturating_sub(1),
                    1 => quote,
                    2 => quote + 1,
                    _ => 0,
                };
                let over = rng.chance(1, 2);
                h.step(
                    Op::Vamm {
                        sender: DRIVER.into(),
                        vamm: v,
                        msg: vm::ExecuteMsg::SwapInput { direction: dir(add), quote_asset_amount: u(amt), base_asset_limit: u(limit), can_go_over_fluctuation: over },
                    },
                    r,
                );
            }
            8..=15 => {
                let add = rng.chance(1, 2);
                // returning to an earlier net position is what R3 of C01 needs: often undo the net position
                let amt = match rng.below(10) {
                    0 => rng.u128_range(1, 9),
                    1 | 2 if s.tps != 0 => s.tps.unsigned_abs(),
                    3 => s.b / 1000 * 999,
                    4 => s.b / 2 + rng.u128_below(s.b / 2 + 1),
                    _ => rng.log_uniform(1, s.b.max(2)),
                };
                let add = if amt == s.tps.unsigned_abs() && s.tps != 0 { s.tps > 0 } else { add };
                let quote = h.w.output_amount(v, add, amt).unwrap_or(0);
                let limit = match rng.below(6) {
                    0 => quote.saturating_sub(1),
                    1 => quote,
                    2 => quote + 1,
                    _ => 0,
                };
                h.step(Op::Vamm { sender: DRIVER.into(), vamm: v, msg: vm::ExecuteMsg::SwapOutput { direction: dir(add), base_asset_amount: u(amt), quote_asset_limit: u(limit) } }, r);
            }
            16 | 17 => {
                let (b, s) = *rng.pick(&[(1u64, 0u64), (1, 1), (1, 15), (10, 100), (100, 1000), (1000, 20000), (1, 900), (1, 3600)]);
                let nanos = if rng.chance(1, 2) { rng.below(1_000_000_000) } else { 0 };
                h.step(Op::Advance { blocks: b, secs: s, nanos }, r);
            }
            18 => {
                let open = s.open;
                if !open || rng.chance(1, 4) {
                    h.step(Op::Vamm { sender: "owner".into(), vamm: v, msg: vm::ExecuteMsg::SetOpen { open: !open } }, r);
                }
            }
            _ => {
                // forged sender
                h.step(
                    Op::Vamm { sender: "stranger".into(), vamm: v, msg: vm::ExecuteMsg::SwapInput { direction: dir(true), quote_asset_amount: u(1000), base_asset_limit: u(0), can_go_over_fluctuation: true } },
                    r,
                );
            }
        }
    }
    h.finish(r);
}

/// W-VAMM "busy window": one small trade in each of a few hundred consecutive short blocks, so that a TWAP
/// window holds far more reserve snapshots than any fixture builds while the price creeps by a few per cent
/// only (a mis-weighted average then falls outside the narrow range of prices in effect).
pub fn run_vamm_busy(rng: &mut Rng, h: &mut History, r: &mut Report, blocks: u64) {
    let v = 0usize;
    let bias = rng.below(3);
    let max_secs = *rng.pick(&[2u64, 6, 12, 30]);
    for k in 0..blocks {
        let s = h.last.vamms[v].clone();
        let add = match bias {
            0 => true,
            1 => false,
            _ => k % 2 == 0,
        };
        let amt = (s.q / 100_000).max(1) * rng.u128_range(1, 20);
        h.step(
            Op::Vamm { sender: DRIVER.into(), vamm: v, msg: vm::ExecuteMsg::SwapInput { direction: dir(add), quote_asset_amount: u(amt), base_asset_limit: u(0), can_go_over_fluctuation: true } },
            r,
        );
        let nanos = if rng.chance(1, 4) { rng.below(1_000_000_000) } else { 0 };
        h.step(Op::Advance { blocks: 1, secs: rng.range(1, max_secs), nanos }, r);
    }
    r.count("busy-window-histories");
    h.finish(r);
}


//! Monitor-side recomputation of margin ratio, funding owed and free collateral from
//! vAMM-level queries and the stored position — never from the engine query that shares code
//! with the guard under test.
use crate::big::Big;
use crate::ops::*;
use crate::world::*;
use margined_perp::margined_engine as eng;
use std::collections::BTreeMap;

#[derive(Clone, Debug)]
pub struct PosView {
    pub pos: Pos,
    pub d: u128,
    pub abs_size: u128,
    pub spot_notional: Option<u128>,
    pub twap_notional: Option<u128>,
    pub oracle: Option<u128>,
    pub spot: u128,
    pub cum: i128,
}

pub fn pos_view(w: &World, snap: &Snap, vamm: usize, trader: &str) -> Option<PosView> {
    let p = snap.pos(vamm, trader)?.clone();
    let abs = p.size.unsigned_abs();
    let vs = &snap.vamms[vamm];
    Some(PosView {
        spot_notional: if abs == 0 { Some(0) } else { w.output_amount(vamm, p.long_dir, abs).ok() },
        twap_notional: if abs == 0 { Some(0) } else { w.output_twap(vamm, p.long_dir, abs).ok() },
        oracle: w.oracle_price(vamm).ok(),
        spot: vs.spot,
        cum: vs.cum_premium,
        d: snap.eng.decimals,
        abs_size: abs,
        pos: p,
    })
}

impl PosView {
    /// funding owed F = trunc((cum - ckpt) * size / D)  (positive: trader pays)
    pub fn funding(&self) -> Big {
        Big::i(self.cum).sub(Big::i(self.pos.ckpt)).mul(Big::i(self.pos.size)).div(Big::u(self.d))
    }
    pub fn pnl_for(&self, notional_now: u128) -> Big {
        if self.abs_size == 0 {
            // a zero-size record has no exposure
            return Big::zero();
        }
        if self.pos.long_dir {
            Big::u(notional_now).sub(Big::u(self.pos.notional))
        } else {
            Big::u(self.pos.notional).sub(Big::u(notional_now))
        }
    }
    /// (notional, pnl) the ratio uses: whichever of spot / 15-minute-TWAP PnL is smaller in magnitude
    pub fn chosen(&self) -> Option<(u128, Big, &'static str)> {
        let sn = self.spot_notional?;
        let tn = self.twap_notional?;
        let sp = self.pnl_for(sn);
        let tp = self.pnl_for(tn);
        if sp.abs() > tp.abs() {
            Some((tn, tp, "twap"))
        } else {
            Some((sn, sp, "spot"))
        }
    }
    pub fn ratio_with(&self, notional: u128, pnl: Big) -> Option<Big> {
        if notional == 0 {
            return None;
        }
        let rem = Big::u(self.pos.margin).add(pnl).sub(self.funding());
        Some(rem.mul(Big::u(self.d)).div(Big::u(notional)))
    }
    pub fn ratio_vamm(&self) -> Option<(Big, &'static str)> {
        let (n, p, which) = self.chosen()?;
        Some((self.ratio_with(n, p)?, which))
    }
    pub fn oracle_notional(&self) -> Option<u128> {
        let o = self.oracle?;
        Big::u(o).mul(Big::u(self.abs_size)).div(Big::u(self.d)).to_u128()
    }
    pub fn ratio_oracle(&self) -> Option<Big> {
        let n = self.oracle_notional()?;
        self.ratio_with(n, self.pnl_for(n))
    }
    /// |spot - oracle| / oracle >= 10 %
    pub fn over_spread(&self) -> Option<bool> {
        let o = self.oracle?;
        if o == 0 {
            return None;
        }
        let diff = Big::u(self.spot).sub(Big::u(o)).abs();
        Some(diff.mul(Big::u(10)) >= Big::u(o))
    }
    /// the ratio that decides liquidation: vAMM ratio, replaced by the oracle ratio when the
    /// spread is >= 10 % and the oracle ratio is higher
    pub fn ratio_liq(&self) -> Option<(Big, &'static str)> {
        let (rv, which) = self.ratio_vamm()?;
        if self.over_spread()? {
            let ro = self.ratio_oracle()?;
            if ro > rv {
                return Some((ro, "oracle"));
            }
        }
        Some((rv, which))
    }
    /// free collateral as defined by the engine's public documentation of the query:
    /// min(margin', margin' + pnl) - requirement, margin' = max(0, margin - F)
    pub fn free_collateral(&self, initial_ratio: u128) -> Option<Big> {
        let (n, p, _) = self.chosen()?;
        let m = Big::u(self.pos.margin).sub(self.funding()).max(Big::zero());
        let account = m.add(p);
        let minimum = m.min(account);
        let base = if self.pos.size > 0 { self.pos.notional } else { n };
        let req = Big::u(base).mul(Big::u(initial_ratio)).div(Big::u(self.d));
        Some(minimum.sub(req))
    }
}

pub fn bucket_ratio_distance(ratio: &Big, maint: u128) -> &'static str {
    let diff = ratio.sub(Big::u(maint));
    if diff.is_zero() {
        "="
    } else if diff.abs() <= Big::u(1) {
        if diff.is_neg() {
            "-1"
        } else {
            "+1"
        }
    } else if diff.abs() <= Big::u(maint.max(100) / 20) {
        if diff.is_neg() {
            "near-below"
        } else {
            "near-above"
        }
    } else if diff.is_neg() {
        if ratio.is_neg() {
            "negative"
        } else {
            "far-below"
        }
    } else {
        "far-above"
    }
}


/// The monitor's OWN funding checkpoints: the cumulative premium fraction at the last moment each
/// position was observed to be settled (created, traded / withdrawn from / partially closed by its
/// owner). Funding owed is computed against this record, not against the checkpoint stored in the
/// position, which is part of what is being checked (a position whose stored checkpoint is not advanced
/// after its funding was deducted would otherwise look as if it still owed that funding).
#[derive(Default, Clone)]
pub struct FundingShadow {
    ck: BTreeMap<(usize, String), i128>,
    /// the monitor's own cumulative premium fraction per vAMM: the sum of the changes observed in
    /// successful PayFunding transactions (nothing else may move it)
    cum: Vec<i128>,
    pub divergences: u64,
    /// the monitor's own reserve timeline per vAMM: (height, time, quote reserve, base reserve) at the end of every block
    /// in which the vAMM traded (and of the deployment block). The TWAP-based notional of a position is recomputed from
    /// it, so that the margin-ratio oracles do not depend on the vAMM's own OutputTwap answer
    tl: Vec<Vec<(u64, u64, u128, u128)>>,
    pub twap_checks: u64,
    pub twap_divergences: u64,
}

/// The time-weighted average of one value per block (the value in effect from the block's time on) over
/// `[now - iv, now]`, or over the whole history when that is shorter. `None` when it is undefined (zero-length
/// history, overflow).
pub fn reference_twap(tl: &[(u64, u64, u128)], now: u64, iv: u64) -> Option<u128> {
    let n = tl.len();
    if n == 0 || iv == 0 {
        return None;
    }
    let base = now.checked_sub(iv)?;
    let latest = tl[n - 1];
    if n == 1 || latest.1 <= base {
        return Some(latest.2);
    }
    let mut prev = latest.1;
    let mut period = now.checked_sub(prev)?;
    let mut acc = latest.2.checked_mul(period as u128)?;
    for k in (0..n - 1).rev() {
        let s = tl[k];
        if s.1 <= base {
            acc = acc.checked_add(s.2.checked_mul((prev - base) as u128)?)?;
            return Some(acc / iv as u128);
        }
        acc = acc.checked_add(s.2.checked_mul((prev.checked_sub(s.1)?) as u128)?)?;
        period += prev - s.1;
        prev = s.1;
    }
    if period == 0 {
        return None;
    }
    Some(acc / period as u128)
}

/// quote exchanged for `x` base on the constant-product curve with reserves (q, b): the invariant is floor(q*b/D)*D, the
/// new quote reserve its floor quotient by the new base reserve (the contract's one-unit remainder correction is left out:
/// callers allow for it)
pub fn reference_output(q: u128, b: u128, d: u128, add: bool, x: u128) -> Option<u128> {
    let k = Big::u(q).mul(Big::u(b)).div(Big::u(d)).mul(Big::u(d));
    let b2 = if add { b.checked_add(x)? } else { b.checked_sub(x)? };
    if b2 == 0 {
        return None;
    }
    let q2 = k.div(Big::u(b2)).to_u128()?;
    Some(q2.abs_diff(q))
}

impl FundingShadow {
    pub fn begin(&mut self, w: &World, s0: &Snap) {
        self.ck.clear();
        self.tl = s0.vamms.iter().map(|v| vec![(w.deploy_height, w.deploy_time, v.q, v.b)]).collect();
        self.cum = s0.vamms.iter().map(|v| v.cum_premium).collect();
        for p in &s0.pos {
            self.ck.insert((p.vamm, p.trader.clone()), p.ckpt);
        }
    }
    /// coverage counters of the shadow records
    pub fn report(&mut self, r: &mut crate::ops::Report) {
        if self.divergences > 0 {
            r.count_n("stored-checkpoint-differs-from-observed-settlements", self.divergences);
            self.divergences = 0;
        }
        if self.twap_checks > 0 {
            r.count_n("twap-notionals-cross-checked-against-own-reserve-timeline", self.twap_checks);
            self.twap_checks = 0;
        }
        if self.twap_divergences > 0 {
            r.count_n("twap-notionals-where-the-vamm-answer-differs-from-own-timeline", self.twap_divergences);
            self.twap_divergences = 0;
        }
    }
    pub fn get(&self, vamm: usize, trader: &str) -> Option<i128> {
        self.ck.get(&(vamm, trader.to_string())).cloned()
    }
    pub fn cum(&self, vamm: usize) -> Option<i128> {
        self.cum.get(vamm).cloned()
    }
    /// the TWAP of the quote value of `abs` base over the vAMM's configured interval, from the monitor's own timeline
    pub fn own_output_twap(&self, snap: &Snap, vamm: usize, add: bool, abs: u128) -> Option<(u128, usize)> {
        let tl = self.tl.get(vamm)?;
        let vs = &snap.vamms[vamm];
        let vals: Option<Vec<(u64, u64, u128)>> = tl.iter().map(|s| reference_output(s.2, s.3, vs.decimals, add, abs).map(|v| (s.0, s.1, v))).collect();
        let vals = vals?;
        // (the engine values positions with the vAMM's OutputTwap, which averages over fifteen minutes whatever the configured interval)
        Some((reference_twap(&vals, snap.time, 900)?, vals.len()))
    }
    pub fn observe(&mut self, w: &World, st: &Step) {
        let post = &st.post;
        let swapped: std::collections::BTreeSet<usize> = crate::mon::util::swap_events(w, &st.out).iter().map(|s| s.vamm).collect();
        for (i, (a, b)) in st.pre.vamms.iter().zip(st.post.vamms.iter()).enumerate() {
            if i < self.tl.len() && (a.q != b.q || a.b != b.b || swapped.contains(&i)) {
                let n = self.tl[i].len();
                if self.tl[i][n - 1].0 == post.height {
                    self.tl[i][n - 1].2 = b.q;
                    self.tl[i][n - 1].3 = b.b;
                } else {
                    self.tl[i].push((post.height, post.time, b.q, b.b));
                }
            }
        }
        if let Op::Engine { msg: eng::ExecuteMsg::PayFunding { vamm }, .. } = &st.op {
            if st.out.ok {
                if let Some(i) = w.vamm_idx(vamm) {
                    self.cum[i] += post.vamms[i].cum_premium - st.pre.vamms[i].cum_premium;
                }
            }
        }
        let gone: Vec<(usize, String)> = self.ck.keys().filter(|k| post.pos(k.0, &k.1).is_none()).cloned().collect();
        for k in gone {
            self.ck.remove(&k);
        }
        for p in &post.pos {
            let key = (p.vamm, p.trader.clone());
            let cum = self.cum.get(p.vamm).cloned().unwrap_or(post.vamms[p.vamm].cum_premium);
            if st.pre.pos(p.vamm, &p.trader).is_none() {
                // created by this transaction: nothing accrued before
                self.ck.insert(key, cum);
                continue;
            }
            if !st.out.ok {
                continue;
            }
            if let Op::Engine { sender, msg, .. } = &st.op {
                let on_this = st.op.engine_vamm().and_then(|a| w.vamm_idx(a)) == Some(p.vamm);
                let settles = matches!(msg, eng::ExecuteMsg::OpenPosition { .. } | eng::ExecuteMsg::ClosePosition { .. } | eng::ExecuteMsg::WithdrawMargin { .. });
                if on_this && settles && *sender == p.trader {
                    self.ck.insert(key, cum);
                }
            }
        }
    }
}

/// position view whose funding checkpoint is the monitor's own record
pub fn pos_view_sh(w: &World, snap: &Snap, vamm: usize, trader: &str, sh: &mut FundingShadow) -> Option<PosView> {
    let mut v = pos_view(w, snap, vamm, trader)?;
    if let Some(c) = sh.get(vamm, trader) {
        if c != v.pos.ckpt && v.pos.size != 0 {
            sh.divergences += 1;
        }
        v.pos.ckpt = c;
    }
    if let Some(c) = sh.cum(vamm) {
        if c != v.cum {
            sh.divergences += 1;
        }
        v.cum = c;
    }
    // the TWAP-based notional from the monitor's own reserve timeline; the vAMM's answer is kept when the two agree to
    // within rounding (one unit per snapshot's remainder correction and one for the final division)
    if v.abs_size > 0 {
        if let (Some(t), Some((own, _n))) = (v.twap_notional, sh.own_output_twap(snap, vamm, v.pos.long_dir, v.abs_size)) {
            sh.twap_checks += 1;
            if t.abs_diff(own) > 3 + own / 1_000_000_000_000 {
                sh.twap_divergences += 1;
                v.twap_notional = Some(own);
            }
        }
    }
    Some(v)
}

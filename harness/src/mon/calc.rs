//! Monitor-side recomputation of margin ratio, funding owed and free collateral from
//! vAMM-level queries and the stored position — never from the engine query that shares code
//! with the guard under test.
use crate::big::Big;
use crate::ops::*;
use crate::world::*;
use margined_perp::margined_engine as eng;
use std::collections::BTreeMap;

#[derive(Clone, Debug)]
pub struct PosView {
    pub pos: Pos,
    pub d: u128,
    pub abs_size: u128,
    pub spot_notional: Option<u128>,
    pub twap_notional: Option<u128>,
    pub oracle: Option<u128>,
    pub spot: u128,
    pub cum: i128,
}

pub fn pos_view(w: &World, snap: &Snap, vamm: usize, trader: &str) -> Option<PosView> {
    let p = snap.pos(vamm, trader)?.clone();
    let abs = p.size.unsigned_abs();
    let vs = &snap.vamms[vamm];
    Some(PosView {
        spot_notional: if abs == 0 { Some(0) } else { w.output_amount(vamm, p.long_dir, abs).ok() },
        twap_notional: if abs == 0 { Some(0) } else { w.output_twap(vamm, p.long_dir, abs).ok() },
        oracle: w.oracle_price(vamm).ok(),
        spot: vs.spot,
        cum: vs.cum_premium,
        d: snap.eng.decimals,
        abs_size: abs,
        pos: p,
    })
}

impl PosView {
    /// funding owed F = trunc((cum - ckpt) * size / D)  (positive: trader pays)
    pub fn funding(&self) -> Big {
        Big::i(self.cum).sub(Big::i(self.pos.ckpt)).mul(Big::i(self.pos.size)).div(Big::u(self.d))
    }
    pub fn pnl_for(&self, notional_now: u128) -> Big {
        if self.abs_size == 0 {
            // a zero-size record has no exposure
            return Big::zero();
        }
        if self.pos.long_dir {
            Big::u(notional_now).sub(Big::u(self.pos.notional))
        } else {
            Big::u(self.pos.notional).sub(Big::u(notional_now))
        }
    }
    /// (notional, pnl) the ratio uses: whichever of spot / 15-minute-TWAP PnL is smaller in magnitude
    pub fn chosen(&self) -> Option<(u128, Big, &'static str)> {
        let sn = self.spot_notional?;
        let tn = self.twap_notional?;
        let sp = self.pnl_for(sn);
        let tp = self.pnl_for(tn);
        if sp.abs() > tp.abs() {
            Some((tn, tp, "twap"))
        } else {
            Some((sn, sp, "spot"))
        }
    }
    pub fn ratio_with(&self, notional: u128, pnl: Big) -> Option<Big> {
        if notional == 0 {
            return None;
        }
        let rem = Big::u(self.pos.margin).add(pnl).sub(self.funding());
        Some(rem.mul(Big::u(self.d)).div(Big::u(notional)))
    }
    pub fn ratio_vamm(&self) -> Option<(Big, &'static str)> {
        let (n, p, which) = self.chosen()?;
        Some((self.ratio_with(n, p)?, which))
    }
    pub fn oracle_notional(&self) -> Option<u128> {
        let o = self.oracle?;
        Big::u(o).mul(Big::u(self.abs_size)).div(Big::u(self.d)).to_u128()
    }
    pub fn ratio_oracle(&self) -> Option<Big> {
        let n = self.oracle_notional()?;
        self.ratio_with(n, self.pnl_for(n))
    }
    /// |spot - oracle| / oracle >= 10 %
    pub fn over_spread(&self) -> Option<bool> {
        let o = self.oracle?;
        if o == 0 {
            return None;
        }
        let diff = Big::u(self.spot).sub(Big::u(o)).abs();
        Some(diff.mul(Big::u(10)) >= Big::u(o))
    }
    /// the ratio that decides liquidation: vAMM ratio, replaced by the oracle ratio when the
    /// spread is >= 10 % and the oracle ratio is higher
    pub fn ratio_liq(&self) -> Option<(Big, &'static str)> {
        let (rv, which) = self.ratio_vamm()?;
        if self.over_spread()? {
            let ro = self.ratio_oracle()?;
            if ro > rv {
                return Some((ro, "oracle"));
            }
        }
        Some((rv, which))
    }
    /// free collateral as defined by the engine's public documentation of the query:
    /// min(margin', margin' + pnl) - requirement, margin' = max(0, margin - F)
    pub fn free_collateral(&self, initial_ratio: u128) -> Option<Big> {
        let (n, p, _) = self.chosen()?;
        let m = Big::u(self.pos.margin).sub(self.funding()).max(Big::zero());
        let account = m.add(p);
        let minimum = m.min(account);
        let base = if self.pos.size > 0 { self.pos.notional } else { n };
        let req = Big::u(base).mul(Big::u(initial_ratio)).div(Big::u(self.d));
        Some(minimum.sub(req))
    }
}

pub fn bucket_ratio_distance(ratio: &Big, maint: u128) -> &'static str {
    let diff = ratio.sub(Big::u(maint));
    if diff.is_zero() {
        "="
    } else if diff.abs() <= Big::u(1) {
        if diff.is_neg() {
            "-1"
        } else {
            "+1"
        }
    } else if diff.abs() <= Big::u(maint.max(100) / 20) {
        if diff.is_neg() {
            "near-below"
        } else {
            "near-above"
        }
    } else if diff.is_neg() {
        if ratio.is_neg() {
            "negative"
        } else {
            "far-below"
        }
    } else {
        "far-above"
    }
}


/// The monitor's OWN funding checkpoints: the cumulative premium fraction at the last moment each
/// position was observed to be settled (created, traded / withdrawn from / partially closed by its
/// owner). Funding owed is computed against this record, not against the checkpoint stored in the
/// position, which is part of what is being checked (a position whose stored checkpoint is not advanced
/// after its funding was deducted would otherwise look as if it still owed that funding).
#[derive(Default, Clone)]
pub struct FundingShadow {
    ck: BTreeMap<(usize, String), i128>,
    /// the monitor's own cumulative premium fraction per vAMM: the sum of the changes observed in
    /// successful PayFunding transactions (nothing else may move it)
    cum: Vec<i128>,
    pub divergences: u64,
}

impl FundingShadow {
    pub fn begin(&mut self, s0: &Snap) {
        self.ck.clear();
        self.cum = s0.vamms.iter().map(|v| v.cum_premium).collect();
        for p in &s0.pos {
            self.ck.insert((p.vamm, p.trader.clone()), p.ckpt);
        }
    }
    pub fn get(&self, vamm: usize, trader: &str) -> Option<i128> {
        self.ck.get(&(vamm, trader.to_string())).cloned()
    }
    pub fn cum(&self, vamm: usize) -> Option<i128> {
        self.cum.get(vamm).cloned()
    }
    pub fn observe(&mut self, w: &World, st: &Step) {
        let post = &st.post;
        if let Op::Engine { msg: eng::ExecuteMsg::PayFunding { vamm }, .. } = &st.op {
            if st.out.ok {
                if let Some(i) = w.vamm_idx(vamm) {
                    self.cum[i] += post.vamms[i].cum_premium - st.pre.vamms[i].cum_premium;
                }
            }
        }
        let gone: Vec<(usize, String)> = self.ck.keys().filter(|k| post.pos(k.0, &k.1).is_none()).cloned().collect();
        for k in gone {
            self.ck.remove(&k);
        }
        for p in &post.pos {
            let key = (p.vamm, p.trader.clone());
            let cum = self.cum.get(p.vamm).cloned().unwrap_or(post.vamms[p.vamm].cum_premium);
            if st.pre.pos(p.vamm, &p.trader).is_none() {
                // created by this transaction: nothing accrued before
                self.ck.insert(key, cum);
                continue;
            }
            if !st.out.ok {
                continue;
            }
            if let Op::Engine { sender, msg, .. } = &st.op {
                let on_this = st.op.engine_vamm().and_then(|a| w.vamm_idx(a)) == Some(p.vamm);
                let settles = matches!(msg, eng::ExecuteMsg::OpenPosition { .. } | eng::ExecuteMsg::ClosePosition { .. } | eng::ExecuteMsg::WithdrawMargin { .. });
                if on_this && settles && *sender == p.trader {
                    self.ck.insert(key, cum);
                }
            }
        }
    }
}

/// position view whose funding checkpoint is the monitor's own record
pub fn pos_view_sh(w: &World, snap: &Snap, vamm: usize, trader: &str, sh: &mut FundingShadow) -> Option<PosView> {
    let mut v = pos_view(w, snap, vamm, trader)?;
    if let Some(c) = sh.get(vamm, trader) {
        if c != v.pos.ckpt && v.pos.size != 0 {
            sh.divergences += 1;
        }
        v.pos.ckpt = c;
    }
    if let Some(c) = sh.cum(vamm) {
        if c != v.cum {
            sh.divergences += 1;
        }
        v.cum = c;
    }
    Some(v)
}

//! Deployment builder, failpoint wrappers, transaction execution at the client boundary and
//! observation (snapshots) of everything reachable through public queries, raw storage dumps,
//! balances and events.
use anyhow::{bail, Result as AnyResult};
use cosmwasm_std::testing::MockApi;
use cosmwasm_std::{
    to_binary, Addr, Api, BankMsg, BankQuery, Binary, BlockInfo, Coin, CosmosMsg, CustomQuery,
    Deps, DepsMut, Empty, Env, Event, MessageInfo, Order, Querier, Reply, Response, Storage,
    Uint128, WasmMsg,
};
use cw_multi_test::{
    App, AppBuilder, AppResponse, Bank, BankKeeper, BankSudo, Contract, ContractWrapper,
    CosmosRouter, Executor, FailingDistribution, FailingStaking, Module, WasmKeeper,
};
use schemars::JsonSchema;
use serde::de::DeserializeOwned;
use serde::{Deserialize, Serialize};
// under Miri sha2's cpuid feature probe (inline asm) is unsupported; the digest only has to be collision-resistant
#[cfg(not(miri))]
use sha2::{Digest, Sha256};
#[cfg(miri)]
use sha3::{Digest, Sha3_256 as Sha256};
use std::cell::{Cell, RefCell};
use std::collections::BTreeMap;
use std::panic::{catch_unwind, AssertUnwindSafe};
use std::rc::Rc;

use margined_common::integer::Integer;
use margined_perp::margined_engine as eng;
use margined_perp::margined_fee_pool as fp;
use margined_perp::margined_insurance_fund as ins;
use margined_perp::margined_pricefeed as pf;
use margined_perp::margined_vamm as vm;

pub const DENOM: &str = "uwasm";
pub const FOREIGN_DENOM: &str = "ucosmos";
pub const KEY: &str = "ETH"; // vAMM base_asset == price feed key

pub type PApp = App<
    FaultyBank,
    MockApi,
    SnapStorage,
    NoCustom,
    WasmKeeper<Empty, Empty>,
    FailingStaking,
    FailingDistribution,
>;

// ---------------------------------------------------------------------------------------------
// storage with checkpoint / restore (lets generators dry-run a transaction)

pub type RawMap = BTreeMap<Vec<u8>, Vec<u8>>;

#[derive(Default, Clone)]
pub struct SnapStorage {
    pub data: Rc<RefCell<RawMap>>,
}

impl Storage for SnapStorage {
    fn get(&self, key: &[u8]) -> Option<Vec<u8>> {
        self.data.borrow().get(key).cloned()
    }
    fn range<'a>(
        &'a self,
        start: Option<&[u8]>,
        end: Option<&[u8]>,
        order: Order,
    ) -> Box<dyn Iterator<Item = cosmwasm_std::Record> + 'a> {
        use std::ops::Bound;
        let lo = start.map(|s| Bound::Included(s.to_vec())).unwrap_or(Bound::Unbounded);
        let hi = end.map(|e| Bound::Excluded(e.to_vec())).unwrap_or(Bound::Unbounded);
        if let (Some(s), Some(e)) = (start, end) {
            if s > e {
                return Box::new(std::iter::empty());
            }
        }
        let d = self.data.borrow();
        let mut v: Vec<cosmwasm_std::Record> = d.range((lo, hi)).map(|(k, v)| (k.clone(), v.clone())).collect();
        if let Order::Descending = order {
            v.reverse();
        }
        Box::new(v.into_iter())
    }
    fn set(&mut self, key: &[u8], value: &[u8]) {
        if value.is_empty() {
            panic!("empty values are not supported");
        }
        self.data.borrow_mut().insert(key.to_vec(), value.to_vec());
    }
    fn remove(&mut self, key: &[u8]) {
        self.data.borrow_mut().remove(key);
    }
}

pub struct Checkpoint {
    data: RawMap,
    block: BlockInfo,
    feed_len: usize,
    tx_count: u64,
    pub pause_shadow: bool,
    pub foreign_next: u8,
}

// ---------------------------------------------------------------------------------------------
// failpoints

#[derive(Default)]
pub struct FaultCtl {
    pub counter: Cell<u32>,
    pub armed: Cell<Option<u32>>,
    pub fired: Cell<bool>,
    pub trace: RefCell<Vec<String>>,
}

impl FaultCtl {
    pub fn reset(&self, armed: Option<u32>) {
        self.counter.set(0);
        self.armed.set(armed);
        self.fired.set(false);
        self.trace.borrow_mut().clear();
    }
    /// returns Err if this entry is the armed one
    fn enter(&self, label: String) -> AnyResult<()> {
        let k = self.counter.get() + 1;
        self.counter.set(k);
        self.trace.borrow_mut().push(label.clone());
        if self.armed.get() == Some(k) {
            self.fired.set(true);
            bail!("injected fault #{} at {}", k, label)
        }
        Ok(())
    }
}

fn msg_tag(raw: &[u8]) -> String {
    // top-level key of the JSON message, e.g. {"swap_input":{..}} -> swap_input
    let s = String::from_utf8_lossy(raw);
    let mut out = String::new();
    let mut inq = false;
    for c in s.chars() {
        if c == '"' {
            if inq {
                break;
            }
            inq = true;
            continue;
        }
        if inq {
            out.push(c);
        }
    }
    out
}

pub struct FaultyContract {
    inner: Box<dyn Contract<Empty>>,
    ctl: Rc<FaultCtl>,
    name: &'static str,
}

impl Contract<Empty> for FaultyContract {
    fn execute(
        &self,
        deps: DepsMut<Empty>,
        env: Env,
        info: MessageInfo,
        msg: Vec<u8>,
    ) -> AnyResult<Response<Empty>> {
        self.ctl.enter(format!("{}:{}", self.name, msg_tag(&msg)))?;
        self.inner.execute(deps, env, info, msg)
    }
    fn instantiate(
        &self,
        deps: DepsMut<Empty>,
        env: Env,
        info: MessageInfo,
        msg: Vec<u8>,
    ) -> AnyResult<Response<Empty>> {
        self.inner.instantiate(deps, env, info, msg)
    }
    fn query(&self, deps: Deps<Empty>, env: Env, msg: Vec<u8>) -> AnyResult<Binary> {
        self.inner.query(deps, env, msg)
    }
    fn sudo(&self, deps: DepsMut<Empty>, env: Env, msg: Vec<u8>) -> AnyResult<Response<Empty>> {
        self.inner.sudo(deps, env, msg)
    }
    fn reply(&self, deps: DepsMut<Empty>, env: Env, msg: Reply) -> AnyResult<Response<Empty>> {
        self.inner.reply(deps, env, msg)
    }
    fn migrate(&self, deps: DepsMut<Empty>, env: Env, msg: Vec<u8>) -> AnyResult<Response<Empty>> {
        self.inner.migrate(deps, env, msg)
    }
}

/// custom-message module that rejects everything (cw-multi-test's own one is not exported)
pub struct NoCustom;

impl Module for NoCustom {
    type ExecT = Empty;
    type QueryT = Empty;
    type SudoT = Empty;

    fn execute<ExecC, QueryC>(
        &self,
        _api: &dyn Api,
        _storage: &mut dyn Storage,
        _router: &dyn CosmosRouter<ExecC = ExecC, QueryC = QueryC>,
        _block: &BlockInfo,
        _sender: Addr,
        _msg: Empty,
    ) -> AnyResult<AppResponse>
    where
        ExecC: std::fmt::Debug + Clone + PartialEq + JsonSchema + DeserializeOwned + 'static,
        QueryC: CustomQuery + DeserializeOwned + 'static,
    {
        bail!("unexpected custom message")
    }

    fn sudo<ExecC, QueryC>(
        &self,
        _api: &dyn Api,
        _storage: &mut dyn Storage,
        _router: &dyn CosmosRouter<ExecC = ExecC, QueryC = QueryC>,
        _block: &BlockInfo,
        _msg: Empty,
    ) -> AnyResult<AppResponse>
    where
        ExecC: std::fmt::Debug + Clone + PartialEq + JsonSchema + DeserializeOwned + 'static,
        QueryC: CustomQuery + DeserializeOwned + 'static,
    {
        bail!("unexpected custom sudo")
    }

    fn query(
        &self,
        _api: &dyn Api,
        _storage: &dyn Storage,
        _querier: &dyn Querier,
        _block: &BlockInfo,
        _request: Empty,
    ) -> AnyResult<Binary> {
        bail!("unexpected custom query")
    }
}

pub struct FaultyBank {
    pub inner: BankKeeper,
    ctl: Rc<FaultCtl>,
}

impl Bank for FaultyBank {}

impl Module for FaultyBank {
    type ExecT = BankMsg;
    type QueryT = BankQuery;
    type SudoT = BankSudo;

    fn execute<ExecC, QueryC>(
        &self,
        api: &dyn Api,
        storage: &mut dyn Storage,
        router: &dyn CosmosRouter<ExecC = ExecC, QueryC = QueryC>,
        block: &BlockInfo,
        sender: Addr,
        msg: BankMsg,
    ) -> AnyResult<AppResponse>
    where
        ExecC: std::fmt::Debug + Clone + PartialEq + JsonSchema + DeserializeOwned + 'static,
        QueryC: CustomQuery + DeserializeOwned + 'static,
    {
        self.ctl.enter("bank:send".to_string())?;
        self.inner.execute(api, storage, router, block, sender, msg)
    }

    fn sudo<ExecC, QueryC>(
        &self,
        api: &dyn Api,
        storage: &mut dyn Storage,
        router: &dyn CosmosRouter<ExecC = ExecC, QueryC = QueryC>,
        block: &BlockInfo,
        msg: BankSudo,
    ) -> AnyResult<AppResponse>
    where
        ExecC: std::fmt::Debug + Clone + PartialEq + JsonSchema + DeserializeOwned + 'static,
        QueryC: CustomQuery + DeserializeOwned + 'static,
    {
        self.inner.sudo(api, storage, router, block, msg)
    }

    fn query(
        &self,
        api: &dyn Api,
        storage: &dyn Storage,
        querier: &dyn Querier,
        block: &BlockInfo,
        request: BankQuery,
    ) -> AnyResult<Binary> {
        self.inner.query(api, storage, querier, block, request)
    }
}

fn wrap(inner: Box<dyn Contract<Empty>>, ctl: &Rc<FaultCtl>, name: &'static str) -> Box<dyn Contract<Empty>> {
    Box::new(FaultyContract { inner, ctl: ctl.clone(), name })
}

fn c_cw20() -> Box<dyn Contract<Empty>> {
    Box::new(ContractWrapper::new_with_empty(
        cw20_base::contract::execute,
        cw20_base::contract::instantiate,
        cw20_base::contract::query,
    ))
}
fn c_vamm() -> Box<dyn Contract<Empty>> {
    Box::new(ContractWrapper::new_with_empty(
        margined_vamm::contract::execute,
        margined_vamm::contract::instantiate,
        margined_vamm::contract::query,
    ))
}
fn c_ins() -> Box<dyn Contract<Empty>> {
    Box::new(ContractWrapper::new_with_empty(
        margined_insurance_fund::contract::execute,
        margined_insurance_fund::contract::instantiate,
        margined_insurance_fund::contract::query,
    ))
}
fn c_fee_pool() -> Box<dyn Contract<Empty>> {
    Box::new(ContractWrapper::new_with_empty(
        margined_fee_pool::contract::execute,
        margined_fee_pool::contract::instantiate,
        margined_fee_pool::contract::query,
    ))
}
fn c_engine() -> Box<dyn Contract<Empty>> {
    Box::new(
        ContractWrapper::new_with_empty(
            margined_engine::contract::execute,
            margined_engine::contract::instantiate,
            margined_engine::contract::query,
        )
        .with_reply(margined_engine::contract::reply),
    )
}
fn c_feed_real() -> Box<dyn Contract<Empty>> {
    Box::new(ContractWrapper::new_with_empty(
        margined_pricefeed::contract::execute,
        margined_pricefeed::contract::instantiate,
        margined_pricefeed::contract::query,
    ))
}
fn c_feed_mock() -> Box<dyn Contract<Empty>> {
    Box::new(ContractWrapper::new_with_empty(
        mock_pricefeed::contract::execute,
        mock_pricefeed::contract::instantiate,
        mock_pricefeed::contract::query,
    ))
}

// ---------------------------------------------------------------------------------------------
// deployment configuration

#[derive(Serialize, Deserialize, Clone, Debug, PartialEq)]
pub enum Collateral {
    Native,
    Cw20 { decimals: u8 },
}

#[derive(Serialize, Deserialize, Clone, Debug, PartialEq)]
pub enum FeedKind {
    Mock,
    Real,
}

#[derive(Serialize, Deserialize, Clone, Debug)]
pub struct VammCfg {
    pub quote_reserve: u128,
    pub base_reserve: u128,
    pub toll: u128,
    pub spread: u128,
    pub fluct: u128,
    pub funding_period: u64,
    /// decimals of this vAMM; None = same as the collateral
    pub decimals: Option<u8>,
    /// register with the insurance fund and open at deployment
    pub live: bool,
    /// instantiate without margin engine and insurance fund (both `None`), the way deployment scripts do before the
    /// engine exists; nobody holds the engine role of such a vAMM until its owner configures one
    #[serde(default)]
    pub unwired: bool,
    /// (not live only) after deployment the vAMM is opened, pointed at a SECOND insurance fund (same code, same
    /// engine) and listed there; the engine's own insurance fund does not list it
    #[serde(default)]
    pub foreign_fund: bool,
}

#[derive(Serialize, Deserialize, Clone, Debug)]
pub struct DeployCfg {
    pub collateral: Collateral,
    pub feed: FeedKind,
    pub vamms: Vec<VammCfg>,
    pub initial_ratio: u128,
    pub maint_ratio: u128,
    pub liq_fee: u128,
    pub partial_ratio: u128,
    pub trader_funds: u128,
    pub insurance_funds: u128,
    /// initial oracle price (raw units, D = 1.0)
    pub oracle_price: u128,
    /// engine of the vAMMs is this harness account instead of the engine contract (W-VAMM)
    pub vamm_engine_override: Option<String>,
}

pub const TRADERS: [&str; 5] = ["alice", "bob", "carol", "dave", "whale"];
/// two accounts whose (long) addresses agree in their first 48 characters (the mock runtime accepts at most 54) and differ only in the last one
pub const LONG_TWINS: [&str; 2] = ["wasm1qyqszqgpqyqszqgpqyqszqgpqyqszqgpqyqszqgp7k3a", "wasm1qyqszqgpqyqszqgpqyqszqgpqyqszqgpqyqszqgp7k3b"];
pub const OTHERS: [&str; 8] = ["liquidator", "owner", "pauser", "newowner", "stranger", "bank", "feepool2", "guardian"];

/// the same address with its first letter in upper case (a different account as far as the runtime is concerned)
pub fn case_variant(a: &str) -> String {
    let mut c = a.chars();
    match c.next() {
        Some(f) => f.to_uppercase().collect::<String>() + c.as_str(),
        None => String::new(),
    }
}

pub fn pow10(d: u8) -> u128 {
    10u128.pow(d as u32)
}

impl DeployCfg {
    pub fn decimals(&self) -> u8 {
        match self.collateral {
            Collateral::Native => 6,
            Collateral::Cw20 { decimals } => decimals,
        }
    }
    pub fn d(&self) -> u128 {
        pow10(self.decimals())
    }
}

// ---------------------------------------------------------------------------------------------
// transaction result

#[derive(Clone, Debug, Serialize)]
pub struct Transfer {
    pub from: String,
    pub to: String,
    pub amount: u128,
    pub kind: String,
}

#[derive(Clone, Debug)]
pub struct TxOut {
    pub ok: bool,
    pub err: Option<String>,
    pub panicked: bool,
    pub events: Vec<Event>,
    pub transfers: Vec<Transfer>,
    pub fault_armed: Option<u32>,
    pub fault_fired: bool,
    pub msg_tree: Vec<String>,
    /// engine path of the transaction, classified from its observable effects when the step is recorded (mon/util.rs)
    pub path: Option<String>,
}

impl TxOut {
    /// all wasm events with the given action emitted by `contract`
    pub fn wasm_events<'a>(&'a self, contract: &str, action: &str) -> Vec<&'a Event> {
        self.events
            .iter()
            .filter(|e| {
                e.ty == "wasm"
                    && attr(e, "_contract_addr") == Some(contract)
                    && attr(e, "action") == Some(action)
            })
            .collect()
    }
    pub fn has_action(&self, contract: &str, action: &str) -> bool {
        !self.wasm_events(contract, action).is_empty()
    }
    pub fn sum_transfers(&self, from: &str, to: &str) -> u128 {
        self.transfers.iter().filter(|t| t.from == from && t.to == to).map(|t| t.amount).sum()
    }
    pub fn err_text(&self) -> String {
        self.err.clone().unwrap_or_default()
    }
}

pub fn attr<'a>(e: &'a Event, key: &str) -> Option<&'a str> {
    e.attributes.iter().find(|a| a.key == key).map(|a| a.value.as_str())
}

pub fn attr_u128(e: &Event, key: &str) -> Option<u128> {
    attr(e, key).and_then(|v| v.parse::<u128>().ok())
}

// ---------------------------------------------------------------------------------------------
// snapshot

#[derive(Clone, Debug, PartialEq, Serialize)]
pub struct Pos {
    pub vamm: usize,
    pub trader: String,
    pub long_dir: bool, // direction == AddToAmm
    pub size: i128,
    pub size_neg_flag: bool, // raw sign flag (to see negative zero)
    pub margin: u128,
    pub notional: u128,
    pub ckpt: i128,
    pub block: u64,
}

#[derive(Clone, Debug, PartialEq, Serialize)]
pub struct VammSnap {
    pub open: bool,
    pub q: u128,
    pub b: u128,
    pub tps: i128,
    pub funding_rate: i128,
    pub next_funding_time: u64,
    pub owner: String,
    pub cfg_engine: String,
    pub cfg_insurance: String,
    pub cfg_pricefeed: String,
    pub holding_cap: u128,
    pub oi_cap: u128,
    pub toll: u128,
    pub spread: u128,
    pub fluct: u128,
    pub decimals: u128,
    pub funding_period: u64,
    pub twap_interval: u64,
    pub spot: u128,
    pub cum_premium: i128,
    pub registered: bool,
}

#[derive(Clone, Debug, PartialEq, Serialize)]
pub struct EngSnap {
    pub owner: String,
    pub insurance_fund: String,
    pub fee_pool: String,
    pub decimals: u128,
    pub initial: u128,
    pub maint: u128,
    pub partial: u128,
    pub liq_fee: u128,
    pub oi: u128,
    pub bad_debt: u128,
    pub paused: bool,
    /// false when no record with a pause flag was found in the engine's storage (the flag is then the harness's own
    /// record of accepted SetPause calls and the monitors do not compare it with anything)
    pub paused_reported: bool,
    pub pauser: String,
    pub whitelist: Vec<String>,
}

#[derive(Clone, Debug, Serialize)]
pub struct Snap {
    pub height: u64,
    pub time: u64,
    pub bal: BTreeMap<String, u128>,
    pub supply: Option<u128>,
    pub pos: Vec<Pos>,
    pub unknown_pos_keys: usize,
    pub eng: EngSnap,
    pub vamms: Vec<VammSnap>,
    pub registry: Vec<String>,
    pub ins_owner: String,
    pub fee_owner: String,
    pub tmp_swap: bool,
    pub sent_funds: bool,
    pub tmp_liq: bool,
    pub digest: String,
}

impl Snap {
    pub fn pos(&self, vamm: usize, trader: &str) -> Option<&Pos> {
        self.pos.iter().find(|p| p.vamm == vamm && p.trader == trader)
    }
    pub fn bal(&self, who: &str) -> u128 {
        *self.bal.get(who).unwrap_or(&0)
    }
    pub fn total(&self) -> u128 {
        self.bal.values().sum()
    }
}

// ---------------------------------------------------------------------------------------------
// world

pub struct World {
    pub app: PApp,
    pub cfg: DeployCfg,
    pub ctl: Rc<FaultCtl>,
    pub engine: Addr,
    pub insurance: Addr,
    /// a second insurance fund of the same engine, present when a market names it (`VammCfg::foreign_fund`)
    pub insurance2: Option<Addr>,
    pub fee_pool: Addr,
    pub feed: Addr,
    pub vamms: Vec<Addr>,
    pub cw20: Option<Addr>,
    pub d: u128,
    pub b0: Vec<u128>,
    /// price submissions made to the feed by the harness: (price, timestamp)
    pub feed_hist: Vec<(u128, u64)>,
    pub tx_count: u64,
    pub store: Rc<RefCell<RawMap>>,
    pub deploy_height: u64,
    pub deploy_time: u64,
    /// raw engine keys that exist when the deployment is complete (long-lived records)
    pub base_keys: std::collections::BTreeSet<Vec<u8>>,
    /// positions are read through the public Position query instead of the raw dump (set when the two disagree,
    /// e.g. after a change of the storage layout)
    pub pos_by_query: std::cell::Cell<bool>,
    pub snap_count: std::cell::Cell<u64>,
    /// pause flag according to the accepted SetPause calls (fallback when the engine's storage shows no pause flag)
    pub pause_shadow: std::cell::Cell<bool>,
    /// set by Op::ForeignCoin: the next engine transaction also attaches 7 units of FOREIGN_DENOM (1 = listed first, 2 = last)
    pub foreign_next: std::cell::Cell<u8>,
}

fn u(v: u128) -> Uint128 {
    Uint128::new(v)
}

pub fn int_to_i128(v: &Integer) -> i128 {
    let m = v.value.u128() as i128; // magnitudes in this harness never approach 2^127
    if v.negative {
        -m
    } else {
        m
    }
}

impl World {
    pub fn deploy(cfg: &DeployCfg) -> World {
        let ctl = Rc::new(FaultCtl::default());
        let bank = FaultyBank { inner: BankKeeper::new(), ctl: ctl.clone() };
        let native = cfg.collateral == Collateral::Native;
        let tf = cfg.trader_funds;
        let storage = SnapStorage::default();
        let store = storage.data.clone();
        let mut app: PApp = AppBuilder::new().with_bank(bank).with_storage(storage).with_custom(NoCustom).build(|router, _api, storage| {
            if !native {
                // a coin of a denomination that is nobody's collateral, for calls that attach a stray coin
                for t in TRADERS.iter().chain(["liquidator", "stranger"].iter()) {
                    router.bank.inner.init_balance(storage, &Addr::unchecked(*t), vec![Coin::new(1_000_000, FOREIGN_DENOM)]).unwrap();
                }
            }
            if native {
                for t in TRADERS.iter() {
                    router
                        .bank
                        .inner
                        .init_balance(storage, &Addr::unchecked(*t), vec![Coin::new(tf, DENOM), Coin::new(1_000_000, FOREIGN_DENOM)])
                        .unwrap();
                }
                router
                    .bank
                    .inner
                    .init_balance(storage, &Addr::unchecked("liquidator"), vec![Coin::new(tf, DENOM), Coin::new(1_000_000, FOREIGN_DENOM)])
                    .unwrap();
                router.bank.inner.init_balance(storage, &Addr::unchecked("stranger"), vec![Coin::new(1_000_000, FOREIGN_DENOM)]).unwrap();
                router
                    .bank
                    .inner
                    .init_balance(
                        storage,
                        &Addr::unchecked("bank"),
                        vec![Coin::new(tf.saturating_mul(1000), DENOM), Coin::new(1_000_000, "ucosmos")],
                    )
                    .unwrap();
            }
        });
        let owner = Addr::unchecked("owner");
        let d8 = cfg.decimals();
        let d = cfg.d();

        // code ids (every code object that can be a sub-message target is wrapped)
        let cw20_id = app.store_code(wrap(c_cw20(), &ctl, "cw20"));
        let fee_id = app.store_code(wrap(c_fee_pool(), &ctl, "fee_pool"));
        let eng_id = app.store_code(c_engine());
        let ins_id = app.store_code(wrap(c_ins(), &ctl, "insurance"));
        let feed_id = match cfg.feed {
            FeedKind::Mock => app.store_code(c_feed_mock()),
            FeedKind::Real => app.store_code(c_feed_real()),
        };
        let vamm_id = app.store_code(wrap(c_vamm(), &ctl, "vamm"));

        let cw20 = match cfg.collateral {
            Collateral::Native => None,
            Collateral::Cw20 { decimals } => {
                let mut initial: Vec<cw20::Cw20Coin> = TRADERS
                    .iter()
                    .map(|t| cw20::Cw20Coin { address: t.to_string(), amount: u(tf) })
                    .collect();
                initial.push(cw20::Cw20Coin { address: "liquidator".into(), amount: u(tf) });
                initial.push(cw20::Cw20Coin { address: "bank".into(), amount: u(tf.saturating_mul(1000)) });
                Some(
                    app.instantiate_contract(
                        cw20_id,
                        owner.clone(),
                        &cw20_base::msg::InstantiateMsg {
                            name: "USDC".into(),
                            symbol: "USDC".into(),
                            decimals,
                            initial_balances: initial,
                            mint: None,
                            marketing: None,
                        },
                        &[],
                        "cw20",
                        None,
                    )
                    .unwrap(),
                )
            }
        };
        let collateral_str = match &cw20 {
            None => DENOM.to_string(),
            Some(a) => a.to_string(),
        };
        let fee_pool = app
            .instantiate_contract(fee_id, owner.clone(), &fp::InstantiateMsg {}, &[], "fee_pool", None)
            .unwrap();
        let engine = app
            .instantiate_contract(
                eng_id,
                owner.clone(),
                &eng::InstantiateMsg {
                    pauser: "pauser".into(),
                    insurance_fund: "insurance_fund".into(),
                    fee_pool: fee_pool.to_string(),
                    eligible_collateral: collateral_str.clone(),
                    initial_margin_ratio: u(cfg.initial_ratio),
                    maintenance_margin_ratio: u(cfg.maint_ratio),
                    liquidation_fee: u(cfg.liq_fee),
                },
                &[],
                "engine",
                None,
            )
            .unwrap();
        let insurance = app
            .instantiate_contract(
                ins_id,
                owner.clone(),
                &ins::InstantiateMsg { engine: engine.to_string() },
                &[],
                "insurance_fund",
                None,
            )
            .unwrap();
        app.execute_contract(
            owner.clone(),
            engine.clone(),
            &eng::ExecuteMsg::UpdateConfig {
                owner: None,
                insurance_fund: Some(insurance.to_string()),
                fee_pool: None,
                initial_margin_ratio: None,
                maintenance_margin_ratio: None,
                partial_liquidation_ratio: Some(u(cfg.partial_ratio)),
                liquidation_fee: None,
            },
            &[],
        )
        .unwrap();
        // fee pool accepts the collateral token
        app.execute_contract(
            owner.clone(),
            fee_pool.clone(),
            &fp::ExecuteMsg::AddToken { token: collateral_str.clone() },
            &[],
        )
        .unwrap();
        let feed = app
            .instantiate_contract(
                feed_id,
                owner.clone(),
                &pf::InstantiateMsg { oracle_hub_contract: "oracle_hub0000".into() },
                &[],
                "pricefeed",
                None,
            )
            .unwrap();

        let mut vamms = vec![];
        let mut b0 = vec![];
        for (i, vc) in cfg.vamms.iter().enumerate() {
            let vd = vc.decimals.unwrap_or(d8);
            let addr = app
                .instantiate_contract(
                    vamm_id,
                    owner.clone(),
                    &vm::InstantiateMsg {
                        decimals: vd,
                        pricefeed: feed.to_string(),
                        margin_engine: if vc.unwired { None } else { Some(cfg.vamm_engine_override.clone().unwrap_or_else(|| engine.to_string())) },
                        insurance_fund: if vc.unwired { None } else { Some(insurance.to_string()) },
                        quote_asset: "USD".into(),
                        base_asset: KEY.into(),
                        quote_asset_reserve: u(vc.quote_reserve),
                        base_asset_reserve: u(vc.base_reserve),
                        funding_period: vc.funding_period,
                        toll_ratio: u(vc.toll),
                        spread_ratio: u(vc.spread),
                        fluctuation_limit_ratio: u(vc.fluct),
                    },
                    &[],
                    format!("vamm{}", i),
                    None,
                )
                .unwrap();
            if vc.live {
                app.execute_contract(owner.clone(), addr.clone(), &vm::ExecuteMsg::SetOpen { open: true }, &[])
                    .unwrap();
                if vd == d8 {
                    app.execute_contract(
                        owner.clone(),
                        insurance.clone(),
                        &ins::ExecuteMsg::AddVamm { vamm: addr.to_string() },
                        &[],
                    )
                    .unwrap();
                }
            }
            vamms.push(addr);
            b0.push(vc.base_reserve);
        }
        // a second insurance fund (instantiated last, so that no other address moves) for the markets that name it
        let mut insurance2: Option<Addr> = None;
        if cfg.vamms.iter().any(|vc| vc.foreign_fund && !vc.live && !vc.unwired) {
            let foreign = app
                .instantiate_contract(ins_id, owner.clone(), &ins::InstantiateMsg { engine: engine.to_string() }, &[], "insurance_fund_2", None)
                .unwrap();
            for (i, vc) in cfg.vamms.iter().enumerate() {
                if vc.foreign_fund && !vc.live && !vc.unwired {
                    let upd = vm::ExecuteMsg::UpdateConfig {
                        base_asset_holding_cap: None,
                        open_interest_notional_cap: None,
                        toll_ratio: None,
                        spread_ratio: None,
                        fluctuation_limit_ratio: None,
                        margin_engine: None,
                        insurance_fund: Some(foreign.to_string()),
                        pricefeed: None,
                        spot_price_twap_interval: None,
                    };
                    app.execute_contract(owner.clone(), vamms[i].clone(), &upd, &[]).unwrap();
                    app.execute_contract(owner.clone(), vamms[i].clone(), &vm::ExecuteMsg::SetOpen { open: true }, &[]).unwrap();
                    // (refused when the vAMM's decimals differ from the engine's)
                    let _ = app.execute_contract(owner.clone(), foreign.clone(), &ins::ExecuteMsg::AddVamm { vamm: vamms[i].to_string() }, &[]);
                }
            }
            insurance2 = Some(foreign);
        }

        let mut w = World {
            app,
            cfg: cfg.clone(),
            ctl,
            engine,
            insurance,
            insurance2,
            fee_pool,
            feed,
            vamms,
            cw20,
            d,
            b0,
            feed_hist: vec![],
            tx_count: 0,
            store,
            deploy_height: 0,
            deploy_time: 0,
            base_keys: Default::default(),
            pos_by_query: std::cell::Cell::new(false),
            snap_count: std::cell::Cell::new(0),
            pause_shadow: std::cell::Cell::new(false),
            foreign_next: std::cell::Cell::new(0),
        };
        w.deploy_height = w.height();
        w.deploy_time = w.now();
        // initial oracle price
        let now = w.now();
        let o = w.set_oracle(cfg.oracle_price, now);
        assert!(o.ok, "initial oracle price: {:?}", o.err);
        // fund the insurance fund
        if cfg.insurance_funds > 0 {
            let ins_name = w.insurance.to_string();
            let o = w.send_collateral("bank", &ins_name, cfg.insurance_funds);
            assert!(o.ok, "fund insurance: {:?}", o.err);
        }
        // allowances for cw20: every trader + liquidator approve the engine generously
        if w.cw20.is_some() {
            let mut who: Vec<&str> = TRADERS.to_vec();
            who.push("liquidator");
            for t in who {
                let o = w.set_allowance(t, u128::MAX / 4);
                assert!(o.ok);
            }
        }
        // histories start in the block after deployment (the vAMM's instantiate snapshot belongs to the
        // deployment block; trading in that very block is not an execution a deployed system has)
        w.advance(1, 6);
        w.base_keys = w.raw_dump(&w.engine).into_iter().map(|(k, _)| k).collect();
        w
    }

    pub fn now(&self) -> u64 {
        self.app.block_info().time.seconds()
    }
    pub fn height(&self) -> u64 {
        self.app.block_info().height
    }
    pub fn advance_ns(&mut self, blocks: u64, secs: u64, nanos: u64) {
        self.app.update_block(|b| {
            b.height += blocks;
            b.time = b.time.plus_seconds(secs).plus_nanos(nanos);
        });
    }
    pub fn advance(&mut self, blocks: u64, secs: u64) {
        self.app.update_block(|b| {
            b.height += blocks;
            b.time = b.time.plus_seconds(secs);
        });
    }

    pub fn checkpoint(&self) -> Checkpoint {
        Checkpoint {
            data: self.store.borrow().clone(),
            block: self.app.block_info(),
            feed_len: self.feed_hist.len(),
            tx_count: self.tx_count,
            pause_shadow: self.pause_shadow.get(),
            foreign_next: self.foreign_next.get(),
        }
    }
    pub fn restore(&mut self, cp: Checkpoint) {
        *self.store.borrow_mut() = cp.data;
        self.app.set_block(cp.block);
        self.feed_hist.truncate(cp.feed_len);
        self.tx_count = cp.tx_count;
        self.pause_shadow.set(cp.pause_shadow);
        self.foreign_next.set(cp.foreign_next);
    }

    pub fn vamm_idx(&self, addr: &str) -> Option<usize> {
        self.vamms.iter().position(|v| v.as_str() == addr)
    }

    /// every account/contract whose collateral balance is tracked
    pub fn tracked_accounts(&self) -> Vec<String> {
        let mut v: Vec<String> = TRADERS.iter().map(|s| s.to_string()).collect();
        // accounts named like the tail of a trader's address (address-aliasing attackers)
        for t in TRADERS.iter() {
            for k in 1..t.len() {
                let a = t[k..].to_string();
                // (queries reject addresses shorter than 3 characters)
                if a.len() >= 3 && !v.contains(&a) {
                    v.push(a);
                }
            }
        }
        v.extend(LONG_TWINS.iter().map(|s| s.to_string()));
        v.extend(OTHERS.iter().map(|s| s.to_string()));
        v.push(self.engine.to_string());
        v.push(self.insurance.to_string());
        v.push(self.fee_pool.to_string());
        v.push(self.feed.to_string());
        for a in &self.vamms {
            v.push(a.to_string());
        }
        if let Some(c) = &self.cw20 {
            v.push(c.to_string());
        }
        v
    }

    pub fn balance(&self, who: &str) -> u128 {
        match &self.cw20 {
            None => self
                .app
                .wrap()
                .query_balance(who, DENOM)
                .map(|c| c.amount.u128())
                .unwrap_or(0),
            Some(c) => {
                let r: Result<cw20::BalanceResponse, _> = self
                    .app
                    .wrap()
                    .query_wasm_smart(c.clone(), &cw20::Cw20QueryMsg::Balance { address: who.to_string() });
                r.map(|b| b.balance.u128()).unwrap_or(0)
            }
        }
    }

    // ---------------- raw execution -------------------------------------------------------

    fn run<F>(&mut self, sender_funds: Option<(String, String, u128)>, armed: Option<u32>, f: F) -> TxOut
    where
        F: FnOnce(&mut PApp) -> AnyResult<AppResponse>,
    {
        self.ctl.reset(armed);
        self.tx_count += 1;
        let app = &mut self.app;
        let r = catch_unwind(AssertUnwindSafe(|| f(app)));
        let fired = self.ctl.fired.get();
        let tree = self.ctl.trace.borrow().clone();
        self.ctl.reset(None);
        match r {
            Ok(Ok(resp)) => {
                let mut transfers = vec![];
                if let Some((from, to, amt)) = sender_funds {
                    if amt > 0 {
                        transfers.push(Transfer { from, to, amount: amt, kind: "attached".into() });
                    }
                }
                self.parse_transfers(&resp.events, &mut transfers);
                TxOut {
                    ok: true,
                    err: None,
                    panicked: false,
                    events: resp.events,
                    transfers,
                    fault_armed: armed,
                    fault_fired: fired,
                    msg_tree: tree,
                    path: None,
                }
            }
            Ok(Err(e)) => TxOut {
                ok: false,
                err: Some(e.root_cause().to_string()),
                panicked: false,
                events: vec![],
                transfers: vec![],
                fault_armed: armed,
                fault_fired: fired,
                msg_tree: tree,
                path: None,
            },
            Err(p) => {
                let text = if let Some(s) = p.downcast_ref::<String>() {
                    s.clone()
                } else if let Some(s) = p.downcast_ref::<&str>() {
                    s.to_string()
                } else {
                    "panic".to_string()
                };
                TxOut {
                    ok: false,
                    err: Some(format!("PANIC: {}", text)),
                    panicked: true,
                    events: vec![],
                    transfers: vec![],
                    fault_armed: armed,
                    fault_fired: fired,
                    msg_tree: tree,
                    path: None,
                }
            }
        }
    }

    fn parse_transfers(&self, events: &[Event], out: &mut Vec<Transfer>) {
        let cw = self.cw20.as_ref().map(|a| a.to_string());
        for e in events {
            if e.ty == "transfer" && cw.is_none() {
                let (Some(to), Some(from), Some(am)) = (attr(e, "recipient"), attr(e, "sender"), attr(e, "amount")) else {
                    continue;
                };
                for part in am.split(',') {
                    if let Some(num) = part.strip_suffix(DENOM) {
                        if let Ok(v) = num.parse::<u128>() {
                            out.push(Transfer { from: from.into(), to: to.into(), amount: v, kind: "bank".into() });
                        }
                    }
                }
            } else if e.ty == "wasm" && cw.is_some() && attr(e, "_contract_addr") == cw.as_deref() {
                let action = attr(e, "action").unwrap_or("");
                let amount = attr_u128(e, "amount").unwrap_or(0);
                match action {
                    "transfer" | "transfer_from" | "send" | "send_from" => {
                        if let (Some(from), Some(to)) = (attr(e, "from"), attr(e, "to")) {
                            out.push(Transfer { from: from.into(), to: to.into(), amount, kind: action.into() });
                        }
                    }
                    "mint" => {
                        if let Some(to) = attr(e, "to") {
                            out.push(Transfer { from: "<mint>".into(), to: to.into(), amount, kind: "mint".into() });
                        }
                    }
                    "burn" | "burn_from" => {
                        if let Some(from) = attr(e, "from") {
                            out.push(Transfer { from: from.into(), to: "<burn>".into(), amount, kind: "burn".into() });
                        }
                    }
                    _ => {}
                }
            }
        }
    }

    /// execute a contract message; `funds` = attached native collateral (0 = none)
    pub fn exec<M: Serialize>(&mut self, sender: &str, contract: &Addr, msg: &M, funds: u128, armed: Option<u32>) -> TxOut {
        let bin = match to_binary(msg) {
            Ok(b) => b,
            Err(e) => {
                return TxOut {
                    ok: false,
                    err: Some(format!("serialize: {}", e)),
                    panicked: false,
                    events: vec![],
                    transfers: vec![],
                    fault_armed: armed,
                    fault_fired: false,
                    msg_tree: vec![],
                    path: None,
                }
            }
        };
        let mut coins = if funds > 0 { vec![Coin::new(funds, DENOM)] } else { vec![] };
        if *contract == self.engine {
            match self.foreign_next.replace(0) {
                1 => coins.insert(0, Coin::new(7, FOREIGN_DENOM)),
                2 => coins.push(Coin::new(7, FOREIGN_DENOM)),
                _ => {}
            }
        }
        let m = CosmosMsg::Wasm(WasmMsg::Execute { contract_addr: contract.to_string(), msg: bin, funds: coins });
        let s = Addr::unchecked(sender);
        let sf = Some((sender.to_string(), contract.to_string(), funds));
        self.run(sf, armed, move |app| app.execute(s, m))
    }

    /// execute with arbitrary attached coins (used for wrong-denom tests)
    pub fn exec_coins<M: Serialize>(&mut self, sender: &str, contract: &Addr, msg: &M, coins: Vec<Coin>) -> TxOut {
        let bin = to_binary(msg).unwrap();
        let m = CosmosMsg::Wasm(WasmMsg::Execute { contract_addr: contract.to_string(), msg: bin, funds: coins });
        let s = Addr::unchecked(sender);
        self.run(None, None, move |app| app.execute(s, m))
    }

    /// plain collateral transfer between accounts (donations / starvation), not a protocol message
    pub fn send_collateral(&mut self, from: &str, to: &str, amount: u128) -> TxOut {
        let s = Addr::unchecked(from);
        match self.cw20.clone() {
            None => {
                let m = CosmosMsg::Bank(BankMsg::Send { to_address: to.to_string(), amount: vec![Coin::new(amount, DENOM)] });
                self.run(None, None, move |app| app.execute(s, m))
            }
            Some(c) => {
                let msg = cw20::Cw20ExecuteMsg::Transfer { recipient: to.to_string(), amount: u(amount) };
                self.exec(from, &c, &msg, 0, None)
            }
        }
    }

    /// set the cw20 allowance of `owner` for the engine to exactly `amount`
    pub fn set_allowance(&mut self, owner: &str, amount: u128) -> TxOut {
        let c = self.cw20.clone().expect("cw20 deployment");
        let cur: cw20::AllowanceResponse = self
            .app
            .wrap()
            .query_wasm_smart(
                c.clone(),
                &cw20::Cw20QueryMsg::Allowance { owner: owner.to_string(), spender: self.engine.to_string() },
            )
            .unwrap();
        let cur = cur.allowance.u128();
        if amount >= cur {
            let msg = cw20::Cw20ExecuteMsg::IncreaseAllowance {
                spender: self.engine.to_string(),
                amount: u(amount - cur),
                expires: None,
            };
            if amount == cur {
                return TxOut {
                    ok: true,
                    err: None,
                    panicked: false,
                    events: vec![],
                    transfers: vec![],
                    fault_armed: None,
                    fault_fired: false,
                    msg_tree: vec![],
                    path: None,
                };
            }
            self.exec(owner, &c, &msg, 0, None)
        } else {
            let msg = cw20::Cw20ExecuteMsg::DecreaseAllowance {
                spender: self.engine.to_string(),
                amount: u(cur - amount),
                expires: None,
            };
            self.exec(owner, &c, &msg, 0, None)
        }
    }

    /// submit an oracle price (mock feed: anyone; real feed: owner, timestamp must be supplied)
    pub fn set_oracle(&mut self, price: u128, timestamp: u64) -> TxOut {
        let feed = self.feed.clone();
        let o = match self.cfg.feed {
            FeedKind::Mock => self.exec(
                "owner",
                &feed,
                &mock_pricefeed::contract::ExecuteMsg::AppendPrice { key: KEY.into(), price: u(price), timestamp },
                0,
                None,
            ),
            FeedKind::Real => self.exec(
                "owner",
                &feed,
                &pf::ExecuteMsg::AppendPrice { key: KEY.into(), price: u(price), timestamp },
                0,
                None,
            ),
        };
        if o.ok {
            self.feed_hist.push((price, timestamp));
        }
        o
    }

    // ---------------- queries --------------------------------------------------------------

    pub fn q<T: DeserializeOwned, M: Serialize>(&self, contract: &Addr, msg: &M) -> Result<T, String> {
        let app = &self.app;
        let r = catch_unwind(AssertUnwindSafe(|| app.wrap().query_wasm_smart::<T>(contract.clone(), msg)));
        match r {
            Ok(Ok(v)) => Ok(v),
            Ok(Err(e)) => Err(e.to_string()),
            Err(_) => Err("PANIC in query".to_string()),
        }
    }
    pub fn q_engine<T: DeserializeOwned>(&self, msg: &eng::QueryMsg) -> Result<T, String> {
        self.q(&self.engine, msg)
    }
    pub fn q_vamm<T: DeserializeOwned>(&self, idx: usize, msg: &vm::QueryMsg) -> Result<T, String> {
        self.q(&self.vamms[idx], msg)
    }
    pub fn q_vamm_u(&self, idx: usize, msg: &vm::QueryMsg) -> Result<u128, String> {
        self.q::<Uint128, _>(&self.vamms[idx], msg).map(|v| v.u128())
    }
    pub fn q_engine_int(&self, msg: &eng::QueryMsg) -> Result<i128, String> {
        self.q::<Integer, _>(&self.engine, msg).map(|v| int_to_i128(&v))
    }
    pub fn position(&self, vamm: usize, trader: &str) -> Option<eng::Position> {
        self.q_engine::<eng::Position>(&eng::QueryMsg::Position {
            vamm: self.vamms[vamm].to_string(),
            trader: trader.to_string(),
        })
        .ok()
    }
    pub fn output_amount(&self, vamm: usize, add: bool, amount: u128) -> Result<u128, String> {
        self.q_vamm_u(vamm, &vm::QueryMsg::OutputAmount { direction: dir(add), amount: u(amount) })
    }
    pub fn output_twap(&self, vamm: usize, add: bool, amount: u128) -> Result<u128, String> {
        self.q_vamm_u(vamm, &vm::QueryMsg::OutputTwap { direction: dir(add), amount: u(amount) })
    }
    pub fn input_amount(&self, vamm: usize, add: bool, amount: u128) -> Result<u128, String> {
        self.q_vamm_u(vamm, &vm::QueryMsg::InputAmount { direction: dir(add), amount: u(amount) })
    }
    pub fn spot(&self, vamm: usize) -> Result<u128, String> {
        self.q_vamm_u(vamm, &vm::QueryMsg::SpotPrice {})
    }
    pub fn oracle_price(&self, vamm: usize) -> Result<u128, String> {
        self.q_vamm_u(vamm, &vm::QueryMsg::UnderlyingPrice {})
    }
    pub fn vamm_state(&self, vamm: usize) -> Result<vm::StateResponse, String> {
        self.q_vamm(vamm, &vm::QueryMsg::State {})
    }
    pub fn vamm_config(&self, vamm: usize) -> Result<vm::ConfigResponse, String> {
        self.q_vamm(vamm, &vm::QueryMsg::Config {})
    }
    pub fn margin_ratio(&self, vamm: usize, trader: &str) -> Result<i128, String> {
        self.q_engine_int(&eng::QueryMsg::MarginRatio { vamm: self.vamms[vamm].to_string(), trader: trader.into() })
    }
    pub fn free_collateral(&self, vamm: usize, trader: &str) -> Result<i128, String> {
        self.q_engine_int(&eng::QueryMsg::FreeCollateral { vamm: self.vamms[vamm].to_string(), trader: trader.into() })
    }
    pub fn cum_premium(&self, vamm: usize) -> i128 {
        self.q_engine_int(&eng::QueryMsg::CumulativePremiumFraction { vamm: self.vamms[vamm].to_string() })
            .unwrap_or(0)
    }
    pub fn is_registered(&self, vamm_addr: &str) -> bool {
        self.q::<ins::VammResponse, _>(&self.insurance, &ins::QueryMsg::IsVamm { vamm: vamm_addr.to_string() })
            .map(|r| r.is_vamm)
            .unwrap_or(false)
    }

    /// positions of every tracked account on every vAMM of the deployment, through the engine's public query
    pub fn positions_by_query(&self) -> Vec<Pos> {
        let mut out = vec![];
        let accts = self.tracked_accounts();
        for vi in 0..self.vamms.len() {
            for t in &accts {
                if let Some(p) = self.position(vi, t) {
                    if p.vamm.as_str() != self.vamms[vi].as_str() || p.trader.as_str() != t.as_str() {
                        continue;
                    }
                    out.push(Pos {
                        vamm: vi,
                        trader: p.trader.to_string(),
                        long_dir: p.direction == vm::Direction::AddToAmm,
                        size: int_to_i128(&p.size),
                        size_neg_flag: p.size.negative,
                        margin: p.margin.u128(),
                        notional: p.notional.u128(),
                        ckpt: int_to_i128(&p.last_updated_premium_fraction),
                        block: p.block_number,
                    });
                }
            }
        }
        out.sort_by(|a, b| (a.vamm, &a.trader).cmp(&(b.vamm, &b.trader)));
        out
    }

    pub fn raw_dump(&self, contract: &Addr) -> Vec<(Vec<u8>, Vec<u8>)> {
        self.app.dump_wasm_raw(contract)
    }

    pub fn storage_digest(&self) -> String {
        self.app.read_module(|_r, _a, storage| {
            let mut h = Sha256::new();
            for (k, v) in storage.range(None, None, Order::Ascending) {
                h.update((k.len() as u32).to_be_bytes());
                h.update(&k);
                h.update((v.len() as u32).to_be_bytes());
                h.update(&v);
            }
            let out = h.finalize();
            out.iter().map(|b| format!("{:02x}", b)).collect::<String>()
        })
    }

    pub fn contract_digest(&self, contract: &Addr) -> String {
        let mut h = Sha256::new();
        for (k, v) in self.raw_dump(contract) {
            h.update((k.len() as u32).to_be_bytes());
            h.update(&k);
            h.update((v.len() as u32).to_be_bytes());
            h.update(&v);
        }
        h.finalize().iter().map(|b| format!("{:02x}", b)).collect::<String>()
    }

    pub fn snap(&self) -> Snap {
        let bi = self.app.block_info();
        let mut bal = BTreeMap::new();
        for a in self.tracked_accounts() {
            bal.insert(a.clone(), self.balance(&a));
        }
        let supply = self.cw20.as_ref().map(|c| {
            let t: cw20::TokenInfoResponse =
                self.app.wrap().query_wasm_smart(c.clone(), &cw20::Cw20QueryMsg::TokenInfo {}).unwrap();
            t.total_supply.u128()
        });

        // engine raw storage. Records are recognised by their *shape* (and, for the in-flight records, also by
        // the key names of the pinned commit), never by key name alone: renaming a storage key is not a change of
        // behaviour and must neither hide positions from the monitors nor make them see residue.
        let dump = self.raw_dump(&self.engine);
        let mut pos = vec![];
        let mut unknown = 0usize;
        let mut tmp_swap = false;
        let mut sent_funds = false;
        let mut tmp_liq = false;
        let mut paused = false;
        let mut paused_reported = false;
        for (k, v) in &dump {
            if let Ok(p) = serde_json::from_slice::<eng::Position>(v) {
                // (a record that parses as the repository's own Position type is a position)
                match self.vamm_idx(p.vamm.as_str()) {
                    Some(idx) => pos.push(Pos {
                        vamm: idx,
                        trader: p.trader.to_string(),
                        long_dir: p.direction == vm::Direction::AddToAmm,
                        size: int_to_i128(&p.size),
                        size_neg_flag: p.size.negative,
                        margin: p.margin.u128(),
                        notional: p.notional.u128(),
                        ckpt: int_to_i128(&p.last_updated_premium_fraction),
                        block: p.block_number,
                    }),
                    None => unknown += 1,
                }
                continue;
            }
            if k.starts_with(b"\x00\x08position") {
                unknown += 1;
                continue;
            }
            let val = serde_json::from_slice::<serde_json::Value>(v).ok();
            let has = |f: &str| val.as_ref().map(|x| x.get(f).is_some()).unwrap_or(false);
            if k.as_slice() == b"\x00\x08tmp-swap" || (has("fees_paid") && has("margin_to_vault")) {
                tmp_swap = true;
            } else if k.as_slice() == b"\x00\x0asent-funds" || (has("asset") && has("required")) {
                sent_funds = true;
            } else if k.as_slice() == b"\x00\x0etmp-liquidator"
                || (!self.base_keys.is_empty() && !self.base_keys.contains(k) && val.as_ref().map(|x| x.is_string()).unwrap_or(false))
            {
                // a bare address string that was not there when the deployment completed (owner / pauser records
                // exist from instantiation on; everything else the engine creates later is an object)
                tmp_liq = true;
            } else if has("pause") && has("open_interest_notional") {
                if let Some(b) = val.as_ref().and_then(|x| x.get("pause")).and_then(|p| p.as_bool()) {
                    paused = b;
                    paused_reported = true;
                }
            }
        }
        if !paused_reported {
            paused = self.pause_shadow.get();
        }
        pos.sort_by(|a, b| (a.vamm, &a.trader).cmp(&(b.vamm, &b.trader)));
        // cross-check the discovery against the public Position query now and then (and whenever nothing was found);
        // if they ever disagree the public query is what the monitors are given from then on
        let n = self.snap_count.get();
        self.snap_count.set(n + 1);
        if !self.pos_by_query.get() && (n % 97 == 0 || pos.is_empty()) {
            let q = self.positions_by_query();
            let known: Vec<&Pos> = pos.iter().collect();
            if q.len() != known.len() || q.iter().zip(known.iter()).any(|(a, b)| a != *b) {
                self.pos_by_query.set(true);
            }
        }
        if self.pos_by_query.get() {
            pos = self.positions_by_query();
            unknown = 0;
        }

        let ec: eng::ConfigResponse = self.q_engine(&eng::QueryMsg::Config {}).unwrap();
        let es: eng::StateResponse = self.q_engine(&eng::QueryMsg::State {}).unwrap();
        let pauser = self
            .q_engine::<eng::PauserResponse>(&eng::QueryMsg::GetPauser {})
            .map(|p| p.pauser.to_string())
            .unwrap_or_default();
        let whitelist: Vec<String> = self
            .q_engine::<serde_json_hooks::HooksResponse>(&eng::QueryMsg::GetWhitelist {})
            .map(|h| h.hooks)
            .unwrap_or_default();
        let engs = EngSnap {
            owner: ec.owner.to_string(),
            insurance_fund: ec.insurance_fund.to_string(),
            fee_pool: ec.fee_pool.to_string(),
            decimals: ec.decimals.u128(),
            initial: ec.initial_margin_ratio.u128(),
            maint: ec.maintenance_margin_ratio.u128(),
            partial: ec.partial_liquidation_ratio.u128(),
            liq_fee: ec.liquidation_fee.u128(),
            oi: es.open_interest_notional.u128(),
            bad_debt: es.bad_debt.u128(),
            paused,
            paused_reported,
            pauser,
            whitelist,
        };

        let registry: Vec<String> = self
            .q::<ins::AllVammResponse, _>(&self.insurance, &ins::QueryMsg::GetAllVamm { limit: Some(100) })
            .map(|r| r.vamm_list.iter().map(|a| a.to_string()).collect())
            .unwrap_or_default();

        let mut vs = vec![];
        for (i, a) in self.vamms.iter().enumerate() {
            let st = self.vamm_state(i).unwrap();
            let cf = self.vamm_config(i).unwrap();
            let owner = self
                .q_vamm::<vm::OwnerResponse>(i, &vm::QueryMsg::GetOwner {})
                .map(|o| o.owner.to_string())
                .unwrap_or_default();
            vs.push(VammSnap {
                open: st.open,
                q: st.quote_asset_reserve.u128(),
                b: st.base_asset_reserve.u128(),
                tps: int_to_i128(&st.total_position_size),
                funding_rate: int_to_i128(&st.funding_rate),
                next_funding_time: st.next_funding_time,
                owner,
                cfg_engine: cf.margin_engine.to_string(),
                cfg_insurance: cf.insurance_fund.to_string(),
                cfg_pricefeed: cf.pricefeed.to_string(),
                holding_cap: cf.base_asset_holding_cap.u128(),
                oi_cap: cf.open_interest_notional_cap.u128(),
                toll: cf.toll_ratio.u128(),
                spread: cf.spread_ratio.u128(),
                fluct: cf.fluctuation_limit_ratio.u128(),
                decimals: cf.decimals.u128(),
                funding_period: cf.funding_period,
                twap_interval: cf.spot_price_twap_interval,
                spot: self.spot(i).unwrap_or(0),
                cum_premium: self.cum_premium(i),
                registered: self.is_registered(a.as_str()),
            });
        }
        let ins_owner = self
            .q::<ins::OwnerResponse, _>(&self.insurance, &ins::QueryMsg::GetOwner {})
            .map(|o| o.owner.to_string())
            .unwrap_or_default();
        let fee_owner = self
            .q::<fp::OwnerResponse, _>(&self.fee_pool, &fp::QueryMsg::GetOwner {})
            .map(|o| o.owner.to_string())
            .unwrap_or_default();

        Snap {
            height: bi.height,
            time: bi.time.seconds(),
            bal,
            supply,
            pos,
            unknown_pos_keys: unknown,
            eng: engs,
            vamms: vs,
            registry,
            ins_owner,
            fee_owner,
            tmp_swap,
            sent_funds,
            tmp_liq,
            digest: self.storage_digest(),
        }
    }
}

pub mod serde_json_hooks {
    use serde::Deserialize;
    #[derive(Deserialize, Debug, Default)]
    pub struct HooksResponse {
        pub hooks: Vec<String>,
    }
}

pub fn dir(add: bool) -> vm::Direction {
    if add {
        vm::Direction::AddToAmm
    } else {
        vm::Direction::RemoveFromAmm
    }
}

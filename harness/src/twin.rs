//! W-TWIN: two deployments identical except for the collateral kind (cw20 6dp vs native uwasm),
//! driven in lock-step by one op stream; the differential monitor reports the first divergence.
use crate::gen::*;
use crate::mon::util::*;
use crate::ops::*;
use crate::rng::Rng;
use crate::world::*;
use margined_perp::margined_engine as eng;
use serde_json::json;

fn translate(op: &Op, a: &World, b: &World) -> Op {
    // contract addresses differ between the twins (the cw20 twin has one more contract)
    let map = |s: &str| -> String {
        if let Some(i) = a.vamm_idx(s) {
            return b.vamms[i].to_string();
        }
        if s == a.engine.as_str() {
            return b.engine.to_string();
        }
        if s == a.insurance.as_str() {
            return b.insurance.to_string();
        }
        if s == a.fee_pool.as_str() {
            return b.fee_pool.to_string();
        }
        s.to_string()
    };
    let text = serde_json::to_string(op).unwrap();
    let mut v: serde_json::Value = serde_json::from_str(&text).unwrap();
    fn walk(v: &mut serde_json::Value, map: &dyn Fn(&str) -> String) {
        match v {
            serde_json::Value::String(s) => {
                if s.starts_with("contract") {
                    *s = map(s);
                }
            }
            serde_json::Value::Array(xs) => xs.iter_mut().for_each(|x| walk(x, map)),
            serde_json::Value::Object(m) => m.values_mut().for_each(|x| walk(x, map)),
            _ => {}
        }
    }
    walk(&mut v, &map);
    serde_json::from_value(v).unwrap()
}

fn role_balances(w: &World, s: &Snap) -> Vec<(String, u128)> {
    let mut v: Vec<(String, u128)> = TRADERS.iter().map(|t| (t.to_string(), s.bal(t))).collect();
    v.push(("liquidator".into(), s.bal("liquidator")));
    v.push(("stranger".into(), s.bal("stranger")));
    v.push(("engine".into(), s.bal(w.engine.as_str())));
    v.push(("insurance".into(), s.bal(w.insurance.as_str())));
    v.push(("fee_pool".into(), s.bal(w.fee_pool.as_str())));
    v.push(("feepool2".into(), s.bal("feepool2")));
    v
}

pub fn run_twin(seed: u64, r: &mut Report, stats: &mut crate::RunStats) {
    let mut rng = Rng::new(seed);
    let mut prof = Profile::default();
    prof.collateral_w = [0, 1, 0];
    prof.extra_vamm_pct = 0;
    prof.w_ops = [34, 12, 6, 8, 8, 5, 5, 12, 7, 1, 0];
    prof.malformed_addr_pct = 50;
    prof.foreign_coin_pct = 8;
    prof.w_macro = [0, 3, 2, 1, 1, 0, 8, 1, 1, 1, 1];
    prof.macro_pct = 18;
    prof.steps = (40, 110);
    let cfg_a = rand_cfg(&mut rng, &prof);
    let mut cfg_b = cfg_a.clone();
    cfg_b.collateral = Collateral::Native;
    let mut g = Gen::new(rng.fork(), prof);
    let mut ha = History::new(&cfg_a, vec![Box::new(TwinTap::default())], r, format!("twin seed={}", seed));
    let mut hb = History::new(&cfg_b, vec![], r, format!("twin-native seed={}", seed));
    // the generator drives A; a tap monitor on A hands every executed step to the mirror below
    let n = g.rng.range(g.prof.steps.0, g.prof.steps.1);
    let mut mirrored = 0usize;
    let mut diverged = false;
    TAP.with(|t| t.borrow_mut().clear());
    for _ in 0..3 {
        if diverged {
            break;
        }
        g.rand_open(&mut ha, r);
        diverged |= mirror(&mut ha, &mut hb, &mut mirrored, r);
    }
    while ha.steps < n && !diverged {
        if g.rng.chance(g.prof.macro_pct, 100) {
            g.run_macro(&mut ha, r);
        } else {
            g.rand_op(&mut ha, r);
        }
        diverged |= mirror(&mut ha, &mut hb, &mut mirrored, r);
    }
    ha.finish(r);
    hb.finish(r);
    stats.absorb(&ha, "W-TWIN");
}

/// remembers the executed steps of the cw20 twin
#[derive(Default)]
pub struct TwinTap;

thread_local! {
    static TAP: std::cell::RefCell<Vec<std::rc::Rc<StepLite>>> = std::cell::RefCell::new(vec![]);
}

pub struct StepLite {
    pub op: Op,
    pub ok: bool,
    pub err: String,
    pub pulled: u128,
    pub path: String,
    pub pre: std::rc::Rc<Snap>,
    pub post: std::rc::Rc<Snap>,
    pub shortfall: bool,
    /// last message of the transaction's message tree (the one that failed, when the transaction failed)
    pub last_msg: String,
}

impl Monitor for TwinTap {
    fn prop(&self) -> &'static str {
        "C13"
    }
    fn post(&mut self, w: &World, st: &Step, _r: &mut Report) {
        let sender = st.op.sender().unwrap_or("").to_string();
        let pulled: u128 = st.out.transfers.iter().filter(|t| t.kind == "transfer_from" && t.from == sender).map(|t| t.amount).sum();
        let lite = StepLite {
            op: st.op.clone(),
            ok: st.out.ok,
            err: st.out.err_text(),
            pulled,
            path: reply_path(w, &st.out),
            pre: st.pre.clone(),
            post: st.post.clone(),
            shortfall: st.out.sum_transfers(w.insurance.as_str(), w.engine.as_str()) > 0,
            last_msg: st.out.msg_tree.last().cloned().unwrap_or_default(),
        };
        TAP.with(|t| t.borrow_mut().push(std::rc::Rc::new(lite)));
    }
}

/// replay on the native twin every step the cw20 twin executed since the last call; true on divergence
fn mirror(ha: &mut History, hb: &mut History, _mirrored: &mut usize, r: &mut Report) -> bool {
    let steps: Vec<std::rc::Rc<StepLite>> = TAP.with(|t| std::mem::take(&mut *t.borrow_mut()));
    for sa in steps {
        let mut opb = translate(&sa.op, &ha.w, &hb.w);
        if let Op::Engine { funds, .. } = &mut opb {
            // the native call attaches exactly what the cw20 deployment pulled from the caller
            *funds = sa.pulled;
        }
        if let Op::Allowance { .. } = opb {
            continue;
        }
        let pre_b = hb.last.clone();
        if sa.op.is_engine() && sa.pulled > pre_b.bal(sa.op.sender().unwrap_or("")) {
            // the cw20 twin let the caller pay out of the proceeds of the same transaction; a native
            // caller cannot attach what it does not hold yet: the premise of the property is unsatisfiable here
            r.count("skip:native-caller-cannot-attach-what-cw20-pulled");
            return true;
        }
        let sb = hb.step(opb.clone(), r);
        if !sa.op.is_engine() {
            continue;
        }
        r.eval();
        let fee = sa.op.engine_vamm().and_then(|a| ha.w.vamm_idx(a)).map(|i| sa.pre.vamms[i].toll + sa.pre.vamms[i].spread > 0).unwrap_or(false);
        r.case(format!("{}|{}|fee={}|pulled={}|shortfall={}|{}", sa.op.kind(), sa.path, fee, sa.pulled > 0, sa.shortfall, if sa.ok { "ok" } else { "err" }));
        r.count(&format!("twin:{}:{}", sa.op.kind(), sa.path));
        let path_b = reply_path(&hb.w, &sb.out);
        let mut diffs: Vec<String> = vec![];
        if !sa.ok && sb.out.ok && sa.err.contains("transfer failure") && sa.last_msg.ends_with("transfer_from") {
            // the cw20 call failed while PULLING tokens from the caller (the message that failed is a transfer_from:
            // the caller cannot pay what would be pulled); "what the cw20 deployment would pull" is then undefined and
            // the native call, which attached nothing, is not comparable: premise unsatisfiable, history ends here.
            // A failure in any other transfer (a payout, an insurance-fund withdrawal) is an outcome like any other.
            r.count("skip:cw20-call-failed-in-a-transfer");
            return true;
        }
        if sa.ok != sb.out.ok {
            diffs.push(format!("outcome cw20={} ({}) native={} ({})", if sa.ok { "ok" } else { "err" }, sa.err, if sb.out.ok { "ok" } else { "err" }, sb.out.err_text()));
        } else {
            // positions
            let pa: Vec<_> = sa.post.pos.iter().map(|p| (p.vamm, p.trader.clone(), p.long_dir, p.size, p.margin, p.notional, p.ckpt, p.block)).collect();
            let pb: Vec<_> = sb.post.pos.iter().map(|p| (p.vamm, p.trader.clone(), p.long_dir, p.size, p.margin, p.notional, p.ckpt, p.block)).collect();
            if pa != pb {
                let da: Vec<_> = pa.iter().filter(|x| !pb.contains(x)).collect();
                let db: Vec<_> = pb.iter().filter(|x| !pa.contains(x)).collect();
                diffs.push(format!("positions cw20 {:?} native {:?}", da, db));
            }
            for (i, (va, vb)) in sa.post.vamms.iter().zip(sb.post.vamms.iter()).enumerate() {
                if (va.q, va.b, va.tps, va.open, va.next_funding_time, va.cum_premium) != (vb.q, vb.b, vb.tps, vb.open, vb.next_funding_time, vb.cum_premium) {
                    diffs.push(format!("vamm{} state cw20 {:?} native {:?}", i, (va.q, va.b, va.tps, va.cum_premium), (vb.q, vb.b, vb.tps, vb.cum_premium)));
                }
            }
            if (sa.post.eng.oi, sa.post.eng.bad_debt) != (sb.post.eng.oi, sb.post.eng.bad_debt) {
                diffs.push(format!("engine state cw20 {:?} native {:?}", (sa.post.eng.oi, sa.post.eng.bad_debt), (sb.post.eng.oi, sb.post.eng.bad_debt)));
            }
            // net balance movement of every party
            let ba0 = role_balances(&ha.w, &sa.pre);
            let ba1 = role_balances(&ha.w, &sa.post);
            let bb0 = role_balances(&hb.w, &pre_b);
            let bb1 = role_balances(&hb.w, &sb.post);
            for k in 0..ba0.len() {
                let da = ba1[k].1 as i128 - ba0[k].1 as i128;
                let db = bb1[k].1 as i128 - bb0[k].1 as i128;
                if da != db {
                    diffs.push(format!("{} net change cw20 {} native {}", ba0[k].0, da, db));
                }
            }
        }
        if sa.ok {
            r.sample_once(&format!("{}:{}", sa.op.kind(), sa.path), json!({"op": short_op(&sa.op), "attached_on_native": sa.pulled.to_string(), "native_path": path_b, "agree": diffs.is_empty()}));
        }
        if !diffs.is_empty() {
            let what = if diffs[0].starts_with("outcome") { "outcome" } else if diffs.iter().any(|d| d.contains("net change")) { "balances" } else { "state" };
            let mut rep = ha.replay_value();
            rep["seed_tag"] = json!(ha.seed_tag);
            r.violation(
                "C13",
                "R1-twins-diverged",
                format!("R1|{}|{}|{}|fee={}", sa.op.kind(), sa.path, what, fee),
                format!("after {} (cw20 path {}, native path {}, attached {}): {}", sa.op.kind(), sa.path, path_b, sa.pulled, diffs.join("; ")),
                sb.seq,
            );
            // attribute the violation to the cw20 history's replay (it carries the seed tag)
            let pend = r.take_pending();
            for (prop, rule, sig, detail, st) in pend {
                r.push_violation(Violation { count: 1, property: prop, rule, signature: sig, detail, step: st, replay: rep.clone() });
            }
            return true;
        }
    }
    false
}

#[allow(dead_code)]
fn _unused(_: eng::ExecuteMsg) {}

//! W-INT: drive the public API of the repository's signed `Integer` type on operand pairs and
//! record every outcome as one JSON line; an offline Python checker (arbitrary precision,
//! independent language) is the oracle.
use crate::rng::Rng;
use margined_common::integer::Integer;
use serde_json::{json, Value};
use std::cmp::Ordering;
use std::io::Write;
use std::panic::{catch_unwind, AssertUnwindSafe};
use std::str::FromStr;

fn mk(neg: bool, mag: u128) -> Integer {
    if neg {
        Integer::new_negative(mag)
    } else {
        Integer::new_positive(mag)
    }
}

/// evaluate a total function of the API; a panic is an outcome ("panic"), never a harness failure
fn guard<F: FnOnce() -> Value>(f: F) -> Value {
    match catch_unwind(AssertUnwindSafe(f)) {
        Ok(v) => v,
        Err(_) => json!("panic"),
    }
}

fn desc(x: &Integer) -> Value {
    let x = *x;
    guard(move || desc_inner(&x))
}

fn desc_inner(x: &Integer) -> Value {
    let zero = Integer::zero();
    json!({
        "n": x.negative,
        "m": x.value.u128().to_string(),
        "s": x.to_string(),
        "eqz": *x == zero,
        "ltz": *x < zero,
        "gtz": *x > zero,
        "isneg": x.is_negative(),
        "ispos": x.is_positive(),
        "iszero": x.is_zero(),
    })
}

fn unchecked<F: FnOnce() -> Integer>(f: F) -> Value {
    match catch_unwind(AssertUnwindSafe(f)) {
        Ok(v) => desc(&v),
        Err(_) => json!("panic"),
    }
}

fn ord(o: Ordering) -> i32 {
    match o {
        Ordering::Less => -1,
        Ordering::Equal => 0,
        Ordering::Greater => 1,
    }
}

pub fn record(an: bool, am: u128, bn: bool, bm: u128) -> Value {
    let a = mk(an, am);
    let b = mk(bn, bm);
    let chk = |r: Result<Integer, String>| match r {
        Ok(v) => desc(&v),
        Err(_) => json!("err"),
    };
    let s = catch_unwind(AssertUnwindSafe(|| a.to_string())).unwrap_or_else(|_| "panic".to_string());
    let parsed = catch_unwind(AssertUnwindSafe(|| Integer::from_str(&s))).unwrap_or_else(|_| Integer::from_str("not a number"));
    let ser = catch_unwind(AssertUnwindSafe(|| serde_json::to_string(&a).ok())).unwrap_or(None);
    let de: Option<Integer> = catch_unwind(AssertUnwindSafe(|| ser.as_ref().and_then(|t| serde_json::from_str::<Integer>(t).ok()))).unwrap_or(None);
    // assignment forms
    let add_assign = unchecked(|| {
        let mut x = a;
        x += b;
        x
    });
    let sub_assign = unchecked(|| {
        let mut x = a;
        x -= b;
        x
    });
    let mul_assign = unchecked(|| {
        let mut x = a;
        x *= b;
        x
    });
    let div_assign = unchecked(|| {
        let mut x = a;
        x /= b;
        x
    });
    json!({
        "a": [an, am.to_string()],
        "b": [bn, bm.to_string()],
        "da": desc(&a),
        "db": desc(&b),
        "add": unchecked(|| a + b),
        "sub": unchecked(|| a - b),
        "mul": unchecked(|| a * b),
        "div": unchecked(|| a / b),
        "add_assign": add_assign,
        "sub_assign": sub_assign,
        "mul_assign": mul_assign,
        "div_assign": div_assign,
        "cadd": chk(a.checked_add(b).map_err(|e| e.to_string())),
        "csub": chk(a.checked_sub(b).map_err(|e| e.to_string())),
        "cmul": chk(a.checked_mul(b).map_err(|e| e.to_string())),
        "cdiv": chk(a.checked_div(b).map_err(|e| e.to_string())),
        "neg": guard(|| desc(&a.invert_sign())),
        "abs": guard(|| desc(&a.abs())),
        "cmp": guard(|| json!(ord(a.cmp(&b)))),
        "pcmp": guard(|| json!(a.partial_cmp(&b).map(ord))),
        "eq": guard(|| json!(a == b)),
        "lt": guard(|| json!(a < b)),
        "le": guard(|| json!(a <= b)),
        "gt": guard(|| json!(a > b)),
        "ge": guard(|| json!(a >= b)),
        "str": s,
        "parse_ok": parsed.is_ok(),
        "parse_eq": guard(|| json!(parsed.as_ref().map(|p| *p == a).unwrap_or(false))),
        "parse_desc": parsed.as_ref().map(desc).unwrap_or(Value::Null),
        "serde": ser,
        "serde_eq": guard(|| json!(de.map(|p| p == a).unwrap_or(false))),
    })
}

pub fn boundary_set() -> Vec<u128> {
    let mut v: Vec<u128> = vec![0, 1, 2, 3, 7, 10, 255, 256, 1_000_000, 1_000_000_000, 1_000_000_000_000_000_000];
    for sh in [31u32, 32, 63, 64, 65, 96, 126, 127] {
        let p = 1u128 << sh;
        v.push(p - 1);
        v.push(p);
        v.push(p + 1);
    }
    v.push(u128::MAX);
    v.push(u128::MAX - 1);
    v.push(u128::MAX / 2);
    v.push(u128::MAX / 2 + 1);
    v.push(u128::MAX / 3);
    v.push(18_446_744_073_709_551_615); // 2^64-1 squared is just under 2^128
    v.push(18_446_744_073_709_551_616);
    v.push(10u128.pow(19));
    v.push(10u128.pow(38));
    v.sort();
    v.dedup();
    v
}

fn rand_mag(rng: &mut Rng, bs: &[u128]) -> u128 {
    match rng.below(8) {
        0 => *rng.pick(bs),
        1 => rng.below(16) as u128,
        2 => rng.next() as u128,
        3 => u128::MAX - rng.below(1000) as u128,
        4 => (1u128 << rng.range(0, 127)) + rng.below(3) as u128 - 1,
        5 => 10u128.pow(rng.range(0, 38) as u32),
        _ => rng.log_uniform(1, u128::MAX),
    }
}

/// writes JSON lines to stdout: the boundary set exhaustively (shard 0 only), then `count` structured random pairs
pub fn run(seed: u64, shard: u64, count: u64, boundary: bool) {
    let out = std::io::stdout();
    let mut w = std::io::BufWriter::new(out.lock());
    let bs = boundary_set();
    if boundary {
        for &am in &bs {
            for &bm in &bs {
                for an in [false, true] {
                    for bn in [false, true] {
                        let mut r = record(an, am, bn, bm);
                        r["set"] = json!("boundary");
                        writeln!(w, "{}", r).unwrap();
                    }
                }
            }
        }
    }
    let mut rng = Rng::new(seed.wrapping_mul(0x1000_0000_01B3) ^ (shard + 1).wrapping_mul(0x9E37_79B9_7F4A_7C15));
    for _ in 0..count {
        let am = rand_mag(&mut rng, &bs);
        // related magnitudes are the interesting ones: equal, off by one, quotient-exact
        let bm = match rng.below(8) {
            0 => am,
            1 => am.wrapping_add(1),
            2 => am.saturating_sub(1),
            3 => {
                let k = rng.range(1, 1000) as u128;
                am / k
            }
            4 => u128::MAX - am,
            _ => rand_mag(&mut rng, &bs),
        };
        let mut r = record(rng.chance(1, 2), am, rng.chance(1, 2), bm);
        r["set"] = json!("random");
        writeln!(w, "{}", r).unwrap();
    }
    w.flush().unwrap();
}

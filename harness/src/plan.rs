//! Which workloads and monitors decide which property, and the per-shard run loop.
use crate::gen::*;
use crate::mon;
use crate::ops::*;
use crate::rng::Rng;
use crate::world::*;
use crate::{Args, RunStats};
use serde_json::Value;

pub fn monitors_for(prop: &str) -> Vec<Box<dyn Monitor>> {
    match prop {
        "C01" => vec![Box::new(mon::basic::C01::default())],
        "C02" => vec![Box::new(mon::basic::C02::default())],
        "C03" => vec![Box::new(mon::basic::C03::default())],
        "C08" => vec![Box::new(mon::basic::C08::default())],
        "C10" => vec![Box::new(mon::basic::C10::default())],
        _ => vec![],
    }
}

pub fn profile_for(prop: &str, _tier: &str) -> Profile {
    let mut p = Profile::default();
    match prop {
        "C08" => {
            p.faulted = true;
            p.steps = (60, 160);
        }
        _ => {}
    }
    p
}

fn default_budget(prop: &str, tier: &str) -> u64 {
    let quick = match prop {
        "C08" => 6000,
        _ => 5000,
    };
    if tier == "thorough" {
        quick * 25
    } else {
        quick
    }
}

pub fn shard_rng(a: &Args) -> Rng {
    Rng::new(a.seed.wrapping_mul(0x0000_0100_0000_01B3) ^ (a.shard + 1).wrapping_mul(0x9E37_79B9_7F4A_7C15))
}

pub fn run(a: &Args, report: &mut Report, stats: &mut RunStats, _extra: &mut Value) {
    let budget = a.budget.unwrap_or_else(|| default_budget(&a.prop, &a.tier));
    let mut rng = shard_rng(a);
    let prof = profile_for(&a.prop, &a.tier);
    let mut hist_no = 0u64;
    while stats.steps < budget && report.violations.len() < 25 {
        let hrng = rng.fork();
        let tag = format!("seed={} shard={} hist={}", a.seed, a.shard, hist_no);
        hist_no += 1;
        let mut g = Gen::new(hrng, prof.clone());
        let cfg = rand_cfg(&mut g.rng, &prof);
        let mons = monitors_for(&a.prop);
        if mons.is_empty() {
            report.inconclusive(format!("no monitor registered for {}", a.prop));
            return;
        }
        let mut h = History::new(&cfg, mons, report, tag);
        g.run_history(&mut h, report);
        stats.absorb(&h, if prof.faulted { "W-FAULT" } else { "W-ENG" });
    }
}

pub fn replay(a: &Args, v: &Value, report: &mut Report, stats: &mut RunStats) {
    let cfg: DeployCfg = serde_json::from_value(v["cfg"].clone()).expect("cfg");
    let mons = monitors_for(&a.prop);
    let mut h = History::new(&cfg, mons, report, "replay".into());
    if let Some(ops) = v["ops"].as_array() {
        for o in ops {
            let op: Op = serde_json::from_value(o["op"].clone()).expect("op");
            let armed: Option<u32> = o["armed"].as_u64().map(|x| x as u32);
            h.step_armed(op, armed, report);
        }
    }
    h.finish(report);
    stats.absorb(&h, "replay");
}

//! Which workloads and monitors decide which property, and the per-shard run loop.
use crate::gen::*;
use crate::mon;
use crate::ops::*;
use crate::rng::Rng;
use crate::world::*;
use crate::{Args, RunStats};
use serde_json::Value;
use std::panic::{catch_unwind, AssertUnwindSafe};

/// the property's own monitor(s) plus, for every property whose monitor computes expectations from configuration values,
/// the configuration shadow (reported configuration == configuration as given; see mon/cfgshadow.rs)
pub fn monitors_for(prop: &str) -> Vec<Box<dyn Monitor>> {
    let mut v = own_monitors_for(prop);
    let to: Option<&'static str> = match prop {
        "C03" => Some("C03"),
        "C05" => Some("C05"),
        "C06" => Some("C06"),
        "C07" => Some("C07"),
        "C11" => Some("C11"),
        "C12" => Some("C12"),
        "C15" => Some("C15"),
        "C20" => Some("C20"),
        _ => None,
    };
    if let (Some(to), false) = (to, v.is_empty()) {
        v.push(Box::new(Relabel { inner: Box::new(mon::cfgshadow::CfgShadow::default()), to, prefix: "" }));
    }
    v
}

fn own_monitors_for(prop: &str) -> Vec<Box<dyn Monitor>> {
    match prop {
        "C01" => vec![Box::new(mon::basic::C01::default())],
        "C02" => vec![Box::new(mon::basic::C02::default())],
        "C03" => vec![Box::new(mon::basic::C03::default())],
        "C08" => vec![Box::new(mon::basic::C08::default())],
        "C10" => vec![Box::new(mon::basic::C10::default())],
        // the margin a close pays out is only "the position's margin" if every earlier owner operation
        // booked it correctly: the per-operation margin/funding ledger of C11 runs as an auxiliary oracle
        "C04" => vec![
            Box::new(mon::econ::C04::default()),
            Box::new(Relabel { inner: Box::new(mon::econ2::C11::default()), to: "C04", prefix: "ledger:" }),
            // ... and the margin + open notional a close cashes out must add up over the position's whole life
            Box::new(Relabel { inner: Box::new(mon::life::Life::default()), to: "C04", prefix: "" }),
        ],
        "C05" => vec![Box::new(mon::econ::C05::default())],
        // a liquidation is judged, and paid out, from the stored position: margin, open notional and funding checkpoint are
        // "the position's" only if every earlier owner operation booked them correctly (a wrong value written by a partial
        // close is consumed by a liquidation much later) - the per-operation ledger of C11 runs as an auxiliary oracle
        "C06" => vec![Box::new(mon::econ::C06::default()), Box::new(Relabel { inner: Box::new(mon::econ2::C11::default()), to: "C06", prefix: "ledger:" })],
        "C07" => vec![Box::new(mon::econ2::C07::default())],
        "C11" => vec![Box::new(mon::econ2::C11::default())],
        // the fee of a close is charged on the stored open notional: same auxiliary ledger
        "C12" => vec![Box::new(mon::econ2::C12::default()), Box::new(Relabel { inner: Box::new(mon::econ2::C11::default()), to: "C12", prefix: "ledger:" })],
        "C14" => vec![Box::new(mon::rules::C14::default())],
        "C15" => vec![Box::new(mon::rules::C15::default())],
        "C16" => vec![Box::new(mon::rules::C16::default())],
        "C17" => vec![Box::new(mon::rules::C17::default())],
        "C18" => vec![Box::new(mon::rules::C18::default())],
        "C20" => vec![Box::new(mon::rules::C20::default())],
        _ => vec![],
    }
}

pub fn profile_for(prop: &str, tier: &str) -> Profile {
    let mut p = Profile::default();
    if tier == "thorough" {
        p.long_pct = 12;
    }
    if prop == "C03" {
        p.alias_pct = 40;
        p.foreign_coin_pct = 8;
        p.stray_funds_pct = 15;
    }
    if cfg!(miri) {
        // supplementary Miri leg: the interpreter is ~4 orders of magnitude slower, so a history is a dozen
        // transactions of plain random operations (snapshots after every step dominate the cost)
        p.long_pct = 0;
        p.steps = (10, 14);
        p.macro_pct = 0;
        p.alias_pct = 0;
        return p;
    }
    match prop {
        "C08" => {
            p.faulted = true;
            p.steps = (60, 160);
        }
        "C10" => {
            p.alias_pct = 80;
            // under-margined victims are what an aliased Liquidate needs
            p.w_macro = [0, 9, 3, 2, 2, 1, 3, 1, 2, 2, 1];
            p.macro_pct = 15;
        }
        "C14" => {
            p.w_ops = [20, 8, 5, 6, 8, 6, 3, 8, 30, 1, 0];
            p.w_macro = [0, 2, 1, 0, 0, 8, 0, 0, 0, 0, 0];
            p.extra_vamm_pct = 50;
            p.heal_pct = 8;
            p.shutdown_pct = 60;
            p.max_vamms = 3;
            p.foreign_fund_pct = 50;
        }
        "C15" => {
            p.fluct_pct = 100;
            p.w_macro = [0, 1, 0, 12, 2, 0, 2, 0, 0, 0, 0];
            p.macro_pct = 25;
            p.partial_choices = vec![0, 250_000, 500_000, 950_000, 1_000_000, 250_000];
            p.exact_edge_pct = 25;
        }
        "C16" => {
            p.w_macro = [0, 10, 0, 0, 6, 0, 1, 0, 0, 0, 0];
            p.macro_pct = 25;
            p.w_ops = [30, 14, 3, 3, 16, 2, 4, 8, 2, 1, 0];
        }
        "C17" => {
            // slot 3 = band-edge opens / closes that trip the band (with limits at the quote); a 100% partial ratio
            // keeps such closes whole-position closes, which the limit rule pins
            p.w_macro = [0, 1, 0, 6, 0, 0, 2, 0, 0, 14, 0];
            p.macro_pct = 30;
            p.fluct_pct = 50;
            p.partial_choices = vec![0, 0, 250_000, 950_000, 1_000_000, 1_000_000];
        }
        "C18" => {
            p.w_ops = [36, 10, 2, 2, 6, 3, 3, 30, 2, 1, 0];
            p.busy_pct = 6;
        }
        "C20" => {
            p.w_ops = [30, 8, 3, 3, 6, 2, 3, 10, 30, 1, 0];
            p.w_macro = [0, 1, 0, 0, 0, 2, 2, 1, 0, 0, 12];
            p.macro_pct = 20;
            p.extra_vamm_pct = 50;
            p.mismatch_decimals_pct = 80;
        }
        "C04" | "C03" => {
            // partial closes (band + partial ratio) with funding in between are what a stale checkpoint needs
            p.w_macro = [0, 4, 5, 5, 5, 1, 3, 1, 2, 2, 1];
            p.pyramid_pct = 80;
            p.fluct_pct = 50;
            p.macro_pct = 18;
        }
        "C06" | "C07" => {
            p.w_macro = [0, 12, 4, 3, 8, 0, 1, 0, 0, 0, 0];
            p.pyramid_pct = 90;
            p.fluct_pct = 40;
            p.macro_pct = 25;
            p.busy_pct = 6;
            if prop == "C07" {
                p.exact_edge_liq_pct = 12;
                p.feed_real_pct = 30;
            }
        }
        "C11" => {
            p.w_macro = [0, 2, 14, 4, 0, 0, 3, 0, 2, 0, 0];
            p.macro_pct = 25;
            p.fluct_pct = 50;
        }
        _ => {}
    }
    p
}

fn default_budget(prop: &str, tier: &str) -> u64 {
    // steps per shard (16 shards): quick ~ 10-20 s, thorough ~ 30x
    let quick = match prop {
        "C08" => 30000,
        // the rarest antecedents (under-margined AND every other premise of the statement) need the most histories
        "C07" => 40000,
        "C13" => 20000,
        _ => 25000,
    };
    if tier == "thorough" {
        quick * 30
    } else {
        quick
    }
}

pub fn shard_rng(a: &Args) -> Rng {
    Rng::new(a.seed.wrapping_mul(0x0000_0100_0000_01B3) ^ (a.shard + 1).wrapping_mul(0x9E37_79B9_7F4A_7C15))
}

pub fn run(a: &Args, report: &mut Report, stats: &mut RunStats, _extra: &mut Value) {
    let budget = a.budget.unwrap_or_else(|| default_budget(&a.prop, &a.tier));
    let mut rng = shard_rng(a);
    let prof = profile_for(&a.prop, &a.tier);
    let mut hist_no = 0u64;
    if a.prop == "C09" {
        let n = a.budget.unwrap_or(if a.tier == "thorough" { 400 } else { 20 });
        for i in 0..n {
            let seed = rng.next();
            let res = catch_unwind(AssertUnwindSafe(|| crate::acl::run_acl(seed, report, stats)));
            if let Err(p) = res {
                let text = p.downcast_ref::<String>().cloned().or_else(|| p.downcast_ref::<&str>().map(|s| s.to_string())).unwrap_or_default();
                report.inconclusive(format!("harness panic in ACL history {}: {} at {}", i, text, crate::last_panic()));
            }
        }
        return;
    }
    if a.prop == "C13" {
        while stats.steps < budget && report.violations.len() < 60 {
            let seed = rng.next();
            let res = catch_unwind(AssertUnwindSafe(|| crate::twin::run_twin(seed, report, stats)));
            if let Err(p) = res {
                let text = p.downcast_ref::<String>().cloned().or_else(|| p.downcast_ref::<&str>().map(|s| s.to_string())).unwrap_or_default();
                report.inconclusive(format!("harness panic in twin history: {} at {}", text, crate::last_panic()));
                stats.steps += 50;
            }
        }
        return;
    }
    let vamm_share: u64 = match a.prop.as_str() {
        "C01" => 50,
        "C17" => 35,
        "C18" => 30,
        _ => 0,
    };
    while stats.steps < budget && report.violations.len() < 60 {
        let mut hrng = rng.fork();
        let tag = format!("seed={} shard={} hist={}", a.seed, a.shard, hist_no);
        hist_no += 1;
        if monitors_for(&a.prop).is_empty() {
            report.inconclusive(format!("no monitor registered for {}", a.prop));
            return;
        }
        // a panic inside the harness (not inside a contract call, those are caught at the call) loses
        // this one history and is recorded as inconclusive; it is never a violation
        let res = catch_unwind(AssertUnwindSafe(|| {
            if a.prop == "C18" && hrng.chance(25, 100) {
                let cfg = mon::feedw::feed_cfg(&mut hrng);
                let mut h = History::new(&cfg, vec![Box::new(mon::feedw::FeedMon::default())], report, format!("W-PF {}", tag));
                let n = hrng.range(20, 80);
                mon::feedw::run_feed_history(&mut hrng, &mut h, report, n);
                stats.absorb(&h, "W-PF");
                return;
            }
            if vamm_share > 0 && hrng.chance(vamm_share, 100) {
                let cfg = mon::vammw::vamm_cfg(&mut hrng);
                let mons: Vec<Box<dyn Monitor>> = match a.prop.as_str() {
                    "C17" => vec![Box::new(mon::vammw::VammLevel::default())],
                    _ => monitors_for(&a.prop),
                };
                let mut h = History::new(&cfg, mons, report, tag.clone());
                if a.prop == "C18" && hrng.chance(1, 5) {
                    let n = hrng.range(110, 300);
                    mon::vammw::run_vamm_busy(&mut hrng, &mut h, report, n);
                    stats.absorb(&h, "W-VAMM");
                    return;
                }
                let n = hrng.range(40, 160);
                mon::vammw::run_vamm_history(&mut hrng, &mut h, report, n);
                stats.absorb(&h, "W-VAMM");
                return;
            }
            let mut g = Gen::new(hrng.clone(), prof.clone());
            let cfg = rand_cfg(&mut g.rng, &prof);
            let mut h = History::new(&cfg, monitors_for(&a.prop), report, tag.clone());
            g.run_history(&mut h, report);
            stats.absorb(&h, if prof.faulted { if h.steps >= 400 { "W-FAULT-long" } else { "W-FAULT" } } else if h.steps >= 400 { "W-ENG-long" } else { "W-ENG" });
        }));
        if let Err(p) = res {
            let text = p.downcast_ref::<String>().cloned().or_else(|| p.downcast_ref::<&str>().map(|s| s.to_string())).unwrap_or_default();
            report.inconclusive(format!("harness panic in a history: {} at {}", text, crate::last_panic()));
            report.count("harness-panics");
            stats.steps += 50; // guarantees termination
        }
    }
}

pub fn replay(a: &Args, v: &Value, report: &mut Report, stats: &mut RunStats) {
    if a.prop == "C13" {
        let tag = v["seed_tag"].as_str().unwrap_or("");
        if let Some(seed) = tag.strip_prefix("twin seed=").and_then(|t| t.parse::<u64>().ok()) {
            crate::twin::run_twin(seed, report, stats);
        } else {
            report.inconclusive("replay file is not a twin history".into());
        }
        return;
    }
    if a.prop == "C09" {
        let tag = v["seed_tag"].as_str().unwrap_or("");
        if let Some(seed) = tag.strip_prefix("acl seed=").and_then(|t| t.parse::<u64>().ok()) {
            crate::acl::run_acl(seed, report, stats);
        } else {
            report.inconclusive("replay file is not an ACL history".into());
        }
        return;
    }
    let cfg: DeployCfg = serde_json::from_value(v["cfg"].clone()).expect("cfg");
    let mut mons = monitors_for(&a.prop);
    if a.prop == "C18" && cfg.feed == FeedKind::Real && v["seed_tag"].as_str().map(|t| t.contains("W-PF")).unwrap_or(false) {
        mons = vec![Box::new(mon::feedw::FeedMon::default())];
    }
    if a.prop == "C17" && cfg.vamm_engine_override.is_some() {
        mons = vec![Box::new(mon::vammw::VammLevel::default())];
    }
    let mut h = History::new(&cfg, mons, report, "replay".into());
    if let Some(ops) = v["ops"].as_array() {
        for o in ops {
            let op: Op = serde_json::from_value(o["op"].clone()).expect("op");
            let armed: Option<u32> = o["armed"].as_u64().map(|x| x as u32);
            let st = h.step_armed(op, armed, report);
            if std::env::var("PERPMON_TRACE").is_ok() {
                eprintln!("step {} {} ok={} err={:?} tree={:?} bad_debt_pre={} vault_pre={}", st.seq, st.op.kind(), st.out.ok, st.out.err, st.out.msg_tree, st.pre.eng.bad_debt, st.pre.bal(h.w.engine.as_str()));
                if !st.out.ok || std::env::var("PERPMON_TRACE").map(|v| v == "2").unwrap_or(false) {
                    eprintln!("   transfers={:?}", st.out.transfers);
                    if let (Some(vi), Some(sender)) = (st.op.engine_vamm().and_then(|a| h.w.vamm_idx(a)), crate::mon::util::engine_msg(&st.op).map(|x| x.0)) {
                        eprintln!("   pos pre={:?}\n   pos post={:?}\n   vamm pre q={} b={} post q={} b={} partial={}", st.pre.pos(vi, sender), st.post.pos(vi, sender), st.pre.vamms[vi].q, st.pre.vamms[vi].b, st.post.vamms[vi].q, st.post.vamms[vi].b, st.pre.eng.partial);
                    }
                }
            }
        }
    }
    h.finish(report);
    stats.absorb(&h, "replay");
}

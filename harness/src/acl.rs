//! W-ACL: exhaustive matrix execute-message variant x sender kind x phase (before / after role
//! transfers) on deployments with live positions. Every cell is a dry run on the same state.
use crate::gen::*;
use crate::ops::*;
use crate::rng::Rng;
use crate::world::*;
use cosmwasm_std::Uint128;
use margined_common::asset::AssetInfo;
use margined_perp::margined_engine as eng;
use margined_perp::margined_fee_pool as fp;
use margined_perp::margined_insurance_fund as ins;
use margined_perp::margined_pricefeed as pf;
use margined_perp::margined_vamm as vm;
use serde_json::json;

fn u(v: u128) -> Uint128 {
    Uint128::new(v)
}

/// who currently holds each role
#[derive(Clone, Debug)]
struct Roles {
    vamm_owner: String,
    vamm_engine: String,
    vamm_insurance: String,
    eng_owner: String,
    pauser: String,
    ins_owner: String,
    ins_engine: String,
    fee_owner: String,
    feed_owner: String,
}

#[derive(Clone, Copy, Debug, PartialEq)]
enum Role {
    VammOwner,
    VammEngine,
    VammOwnerOrInsurance,
    EngOwner,
    Pauser,
    InsOwner,
    InsEngine,
    FeeOwner,
    FeedOwner,
}

impl Roles {
    fn holders(&self, r: Role) -> Vec<String> {
        match r {
            Role::VammOwner => vec![self.vamm_owner.clone()],
            Role::VammEngine => vec![self.vamm_engine.clone()],
            Role::VammOwnerOrInsurance => vec![self.vamm_owner.clone(), self.vamm_insurance.clone()],
            Role::EngOwner => vec![self.eng_owner.clone()],
            Role::Pauser => vec![self.pauser.clone()],
            Role::InsOwner => vec![self.ins_owner.clone()],
            Role::InsEngine => vec![self.ins_engine.clone()],
            Role::FeeOwner => vec![self.fee_owner.clone()],
            Role::FeedOwner => vec![self.feed_owner.clone()],
        }
    }
}

fn is_auth_err(e: &str) -> bool {
    let l = e.to_lowercase();
    l.contains("unauthorized") || l.contains("not admin") || l.contains("not margin engine")
}

struct Cell {
    contract: &'static str,
    variant: &'static str,
    role: Role,
    op: Op,
    /// boundary / degenerate payload (zero amounts, empty lists, no-op updates): the role holder's call
    /// need not succeed, but no other sender may ever get Ok
    boundary: bool,
}

fn cells(w: &World, s: &Snap, rng: &mut Rng) -> Vec<Cell> {
    let d = w.d;
    let v0 = 0usize;
    let collateral = match &w.cw20 {
        None => DENOM.to_string(),
        Some(a) => a.to_string(),
    };
    let token = match &w.cw20 {
        None => AssetInfo::NativeToken { denom: DENOM.into() },
        Some(a) => AssetInfo::Token { contract_addr: a.clone() },
    };
    let registered: Vec<usize> = (0..w.vamms.len()).filter(|i| s.vamms[*i].registered).collect();
    let unregistered: Vec<usize> = (0..w.vamms.len()).filter(|i| !s.vamms[*i].registered && s.vamms[*i].decimals == s.eng.decimals).collect();
    let now = w.now();
    let x = |sender: &str| sender.to_string();
    let mut c: Vec<Cell> = vec![];
    let small = (s.vamms[v0].q / 10_000).max(10);
    let vop = |msg: vm::ExecuteMsg| Op::Vamm { sender: x("?"), vamm: v0, msg };
    c.push(Cell { contract: "vamm", variant: "swap_input", boundary: false, role: Role::VammEngine, op: vop(vm::ExecuteMsg::SwapInput { direction: dir(true), quote_asset_amount: u(small), base_asset_limit: u(0), can_go_over_fluctuation: true }) });
    c.push(Cell { contract: "vamm", variant: "swap_output", boundary: false, role: Role::VammEngine, op: vop(vm::ExecuteMsg::SwapOutput { direction: dir(true), base_asset_amount: u((s.vamms[v0].b / 10_000).max(10)), quote_asset_limit: u(0) }) });
    c.push(Cell { contract: "vamm", variant: "settle_funding", boundary: false, role: Role::VammEngine, op: vop(vm::ExecuteMsg::SettleFunding {}) });
    c.push(Cell {
        contract: "vamm",
        variant: "update_config",
        boundary: false, role: Role::VammOwner,
        op: vop(vm::ExecuteMsg::UpdateConfig {
            base_asset_holding_cap: if rng.chance(1, 2) { Some(u(rng.u128_range(0, 1000))) } else { None },
            open_interest_notional_cap: None,
            toll_ratio: Some(u(rng.u128_range(0, d / 10))),
            spread_ratio: None,
            fluctuation_limit_ratio: None,
            margin_engine: if rng.chance(1, 3) { Some(x("stranger")) } else { None },
            insurance_fund: None,
            pricefeed: None,
            spot_price_twap_interval: None,
        }),
    });
    c.push(Cell { contract: "vamm", variant: "update_owner", boundary: false, role: Role::VammOwner, op: vop(vm::ExecuteMsg::UpdateOwner { owner: x("stranger") }) });
    c.push(Cell { contract: "vamm", variant: "set_open", boundary: false, role: Role::VammOwnerOrInsurance, op: vop(vm::ExecuteMsg::SetOpen { open: !s.vamms[v0].open }) });
    let eop = |msg: eng::ExecuteMsg| Op::Engine { sender: x("?"), msg, funds: 0 };
    c.push(Cell {
        contract: "engine",
        variant: "update_config",
        boundary: false, role: Role::EngOwner,
        op: eop(eng::ExecuteMsg::UpdateConfig {
            owner: if rng.chance(1, 3) { Some(x("stranger")) } else { None },
            insurance_fund: None,
            fee_pool: if rng.chance(1, 3) { Some(x("stranger")) } else { None },
            initial_margin_ratio: None,
            maintenance_margin_ratio: None,
            partial_liquidation_ratio: Some(u(rng.u128_range(0, d))),
            liquidation_fee: Some(u(rng.u128_range(0, d / 10))),
        }),
    });
    c.push(Cell { contract: "engine", variant: "update_pauser", boundary: false, role: Role::Pauser, op: eop(eng::ExecuteMsg::UpdatePauser { pauser: x("stranger") }) });
    c.push(Cell { contract: "engine", variant: "add_whitelist", boundary: false, role: Role::Pauser, op: eop(eng::ExecuteMsg::AddWhitelist { address: x("stranger") }) });
    if let Some(wl) = s.eng.whitelist.first() {
        c.push(Cell { contract: "engine", variant: "remove_whitelist", boundary: false, role: Role::Pauser, op: eop(eng::ExecuteMsg::RemoveWhitelist { address: wl.clone() }) });
    }
    c.push(Cell { contract: "engine", variant: "set_pause", boundary: false, role: Role::Pauser, op: eop(eng::ExecuteMsg::SetPause { pause: !s.eng.paused }) });
    let iop = |msg: ins::ExecuteMsg| Op::Insurance { sender: x("?"), msg };
    c.push(Cell { contract: "insurance", variant: "update_owner", boundary: false, role: Role::InsOwner, op: iop(ins::ExecuteMsg::UpdateOwner { owner: x("stranger") }) });
    if let Some(vi) = unregistered.first() {
        if registered.len() < 3 {
            c.push(Cell { contract: "insurance", variant: "add_vamm", boundary: false, role: Role::InsOwner, op: iop(ins::ExecuteMsg::AddVamm { vamm: w.vamms[*vi].to_string() }) });
        }
    }
    if let Some(vi) = registered.last() {
        c.push(Cell { contract: "insurance", variant: "remove_vamm", boundary: false, role: Role::InsOwner, op: iop(ins::ExecuteMsg::RemoveVamm { vamm: w.vamms[*vi].to_string() }) });
    }
    c.push(Cell { contract: "insurance", variant: "withdraw", boundary: false, role: Role::InsEngine, op: iop(ins::ExecuteMsg::Withdraw { token: token.clone(), amount: u(rng.u128_range(1, 1000)) }) });
    c.push(Cell { contract: "insurance", variant: "shutdown_vamms", boundary: false, role: Role::InsOwner, op: iop(ins::ExecuteMsg::ShutdownVamms {}) });
    let fop = |msg: fp::ExecuteMsg| Op::FeePool { sender: x("?"), msg };
    c.push(Cell { contract: "fee_pool", variant: "update_owner", boundary: false, role: Role::FeeOwner, op: fop(fp::ExecuteMsg::UpdateOwner { owner: x("stranger") }) });
    c.push(Cell { contract: "fee_pool", variant: "add_token", boundary: false, role: Role::FeeOwner, op: fop(fp::ExecuteMsg::AddToken { token: if collateral == "ujunox" { x("uwasm") } else { x("ujunox") } }) });
    c.push(Cell { contract: "fee_pool", variant: "remove_token", boundary: false, role: Role::FeeOwner, op: fop(fp::ExecuteMsg::RemoveToken { token: collateral.clone() }) });
    c.push(Cell { contract: "fee_pool", variant: "send_token", boundary: false, role: Role::FeeOwner, op: fop(fp::ExecuteMsg::SendToken { token: collateral.clone(), amount: u(rng.u128_range(1, 500)), recipient: x("stranger") }) });
    let pop = |msg: pf::ExecuteMsg| Op::Feed { sender: x("?"), msg };
    c.push(Cell { contract: "pricefeed", variant: "append_price", boundary: false, role: Role::FeedOwner, op: pop(pf::ExecuteMsg::AppendPrice { key: KEY.into(), price: u(rng.u128_range(1, 100 * d)), timestamp: now }) });
    c.push(Cell {
        contract: "pricefeed",
        variant: "append_multiple_price",
        boundary: false, role: Role::FeedOwner,
        op: pop(pf::ExecuteMsg::AppendMultiplePrice { key: KEY.into(), prices: vec![u(5 * d), u(6 * d)], timestamps: vec![now, now] }),
    });
    c.push(Cell { contract: "pricefeed", variant: "update_owner", boundary: false, role: Role::FeedOwner, op: pop(pf::ExecuteMsg::UpdateOwner { owner: x("stranger") }) });
    // degenerate payloads of every privileged variant
    let b = |contract: &'static str, variant: &'static str, role: Role, op: Op| Cell { contract, variant, role, op, boundary: true };
    for add in [true, false] {
        c.push(b("vamm", "swap_input(0)", Role::VammEngine, vop(vm::ExecuteMsg::SwapInput { direction: dir(add), quote_asset_amount: u(0), base_asset_limit: u(0), can_go_over_fluctuation: add })));
        c.push(b("vamm", "swap_output(0)", Role::VammEngine, vop(vm::ExecuteMsg::SwapOutput { direction: dir(add), base_asset_amount: u(0), quote_asset_limit: u(0) })));
        c.push(b("vamm", "swap_input(1)", Role::VammEngine, vop(vm::ExecuteMsg::SwapInput { direction: dir(add), quote_asset_amount: u(1), base_asset_limit: u(0), can_go_over_fluctuation: true })));
    }
    c.push(b("vamm", "update_config(none)", Role::VammOwner, vop(vm::ExecuteMsg::UpdateConfig { base_asset_holding_cap: None, open_interest_notional_cap: None, toll_ratio: None, spread_ratio: None, fluctuation_limit_ratio: None, margin_engine: None, insurance_fund: None, pricefeed: None, spot_price_twap_interval: None })));
    c.push(b("vamm", "update_config(invalid)", Role::VammOwner, vop(vm::ExecuteMsg::UpdateConfig { base_asset_holding_cap: None, open_interest_notional_cap: None, toll_ratio: Some(u(d + 1)), spread_ratio: None, fluctuation_limit_ratio: None, margin_engine: None, insurance_fund: None, pricefeed: None, spot_price_twap_interval: Some(1) })));
    c.push(b("vamm", "set_open(same)", Role::VammOwnerOrInsurance, vop(vm::ExecuteMsg::SetOpen { open: s.vamms[v0].open })));
    c.push(b("vamm", "update_owner(self)", Role::VammOwner, vop(vm::ExecuteMsg::UpdateOwner { owner: s.vamms[v0].owner.clone() })));
    c.push(b("engine", "update_config(none)", Role::EngOwner, eop(eng::ExecuteMsg::UpdateConfig { owner: None, insurance_fund: None, fee_pool: None, initial_margin_ratio: None, maintenance_margin_ratio: None, partial_liquidation_ratio: None, liquidation_fee: None })));
    c.push(b("engine", "update_config(invalid)", Role::EngOwner, eop(eng::ExecuteMsg::UpdateConfig { owner: None, insurance_fund: None, fee_pool: None, initial_margin_ratio: Some(u(d + 1)), maintenance_margin_ratio: None, partial_liquidation_ratio: None, liquidation_fee: None })));
    c.push(b("engine", "set_pause(same)", Role::Pauser, eop(eng::ExecuteMsg::SetPause { pause: s.eng.paused })));
    c.push(b("engine", "remove_whitelist(absent)", Role::Pauser, eop(eng::ExecuteMsg::RemoveWhitelist { address: x("stranger") })));
    c.push(b("engine", "add_whitelist(present)", Role::Pauser, eop(eng::ExecuteMsg::AddWhitelist { address: s.eng.whitelist.first().cloned().unwrap_or_else(|| x("dave")) })));
    c.push(b("insurance", "withdraw(0)", Role::InsEngine, iop(ins::ExecuteMsg::Withdraw { token: token.clone(), amount: u(0) })));
    c.push(b("insurance", "withdraw(all+1)", Role::InsEngine, iop(ins::ExecuteMsg::Withdraw { token: token.clone(), amount: u(s.bal(w.insurance.as_str()) + 1) })));
    c.push(b("insurance", "add_vamm(registered)", Role::InsOwner, iop(ins::ExecuteMsg::AddVamm { vamm: registered.first().map(|i| w.vamms[*i].to_string()).unwrap_or_else(|| x("alice")) })));
    c.push(b("insurance", "remove_vamm(absent)", Role::InsOwner, iop(ins::ExecuteMsg::RemoveVamm { vamm: x("alice") })));
    c.push(b("insurance", "add_vamm(not a vamm)", Role::InsOwner, iop(ins::ExecuteMsg::AddVamm { vamm: w.engine.to_string() })));
    c.push(b("fee_pool", "send_token(0)", Role::FeeOwner, fop(fp::ExecuteMsg::SendToken { token: collateral.clone(), amount: u(0), recipient: x("stranger") })));
    c.push(b("fee_pool", "send_token(all+1)", Role::FeeOwner, fop(fp::ExecuteMsg::SendToken { token: collateral.clone(), amount: u(s.bal(w.fee_pool.as_str()) + 1), recipient: x("stranger") })));
    c.push(b("fee_pool", "send_token(unlisted)", Role::FeeOwner, fop(fp::ExecuteMsg::SendToken { token: x("ujunox"), amount: u(1), recipient: x("stranger") })));
    c.push(b("fee_pool", "add_token(present)", Role::FeeOwner, fop(fp::ExecuteMsg::AddToken { token: collateral.clone() })));
    c.push(b("fee_pool", "remove_token(absent)", Role::FeeOwner, fop(fp::ExecuteMsg::RemoveToken { token: x("ujunox") })));
    c.push(b("pricefeed", "append_multiple_price(empty)", Role::FeedOwner, pop(pf::ExecuteMsg::AppendMultiplePrice { key: KEY.into(), prices: vec![], timestamps: vec![] })));
    c.push(b("pricefeed", "append_multiple_price(mismatch)", Role::FeedOwner, pop(pf::ExecuteMsg::AppendMultiplePrice { key: KEY.into(), prices: vec![u(d)], timestamps: vec![] })));
    c.push(b("pricefeed", "append_price(0)", Role::FeedOwner, pop(pf::ExecuteMsg::AppendPrice { key: "OTHER".into(), price: u(0), timestamp: 0 })));
    c
}

fn with_sender(op: &Op, sender: &str) -> Op {
    let mut o = op.clone();
    match &mut o {
        Op::Engine { sender: s, .. } | Op::Vamm { sender: s, .. } | Op::Insurance { sender: s, .. } | Op::FeePool { sender: s, .. } | Op::Feed { sender: s, .. } => *s = sender.to_string(),
        _ => {}
    }
    o
}

fn contract_addr(w: &World, c: &str) -> String {
    match c {
        "vamm" => w.vamms[0].to_string(),
        "engine" => w.engine.to_string(),
        "insurance" => w.insurance.to_string(),
        "fee_pool" => w.fee_pool.to_string(),
        _ => w.feed.to_string(),
    }
}

/// run the whole matrix on the current state; every cell is a dry run
fn matrix(w: &mut World, roles: &Roles, phase: &str, exes: &[String], rng: &mut Rng, r: &mut Report, ops_so_far: &serde_json::Value) {
    let s = w.snap();
    let cs = cells(w, &s, rng);
    // sender kinds: every role holder, every contract address, plain accounts, former holders
    let mut senders: Vec<(String, String)> = vec![
        ("vamm_owner".into(), roles.vamm_owner.clone()),
        ("eng_owner".into(), roles.eng_owner.clone()),
        ("pauser".into(), roles.pauser.clone()),
        ("ins_owner".into(), roles.ins_owner.clone()),
        ("fee_owner".into(), roles.fee_owner.clone()),
        ("feed_owner".into(), roles.feed_owner.clone()),
        ("engine".into(), w.engine.to_string()),
        ("insurance".into(), w.insurance.to_string()),
        ("vamm".into(), w.vamms[0].to_string()),
        ("other_vamm".into(), w.vamms.last().unwrap().to_string()),
        ("fee_pool".into(), w.fee_pool.to_string()),
        ("pricefeed".into(), w.feed.to_string()),
        ("vamm_engine".into(), roles.vamm_engine.clone()),
        ("trader".into(), "alice".into()),
        ("liquidator".into(), "liquidator".into()),
        ("stranger".into(), "stranger".into()),
        // addresses that only ever appeared as NON-role values (fee pool, whitelist entries)
        ("non_role_value".into(), "feepool2".into()),
        ("non_role_value".into(), "carol".into()),
        ("non_role_value".into(), "dave".into()),
    ];
    for e in exes {
        senders.push(("ex_holder".into(), e.clone()));
    }
    for cell in cs {
        // after re-pointing the vAMM's engine / insurance fund only the vAMM's own cells are meaningful
        // (the old fund's shutdown legitimately cannot close a vAMM that no longer names it)
        if phase == "after-config" && cell.contract != "vamm" {
            continue;
        }
        let holders = roles.holders(cell.role);
        let target = contract_addr(w, cell.contract);
        // (1) the rightful holder must be able to make this very call on this very state
        let mut rightful_ok = false;
        let mut rightful_err = String::new();
        for hname in &holders {
            if *hname == target {
                continue;
            }
            let cp = w.checkpoint();
            let out = apply(w, &with_sender(&cell.op, hname), None);
            w.restore(cp);
            if out.ok {
                rightful_ok = true;
            } else {
                rightful_err = out.err_text();
                if is_auth_err(&rightful_err) && !cell.boundary {
                    r.violation(
                        "C09",
                        "R2-role-holder-refused",
                        format!("R2|{}|{}|{}", cell.contract, cell.variant, phase),
                        format!("{} {} sent by the role holder {} was refused: {} (phase {})", cell.contract, cell.variant, hname, rightful_err, phase),
                        0,
                    );
                }
            }
        }
        if cell.boundary {
            r.count("boundary-payload-cells");
        } else if !rightful_ok {
            r.count("vacuous-cells(payload not accepted for the role holder)");
            r.count(&format!("vacuous:{}:{}", cell.contract, cell.variant));
            r.inconclusive(format!("cell {} {} vacuous in phase {}: {}", cell.contract, cell.variant, phase, rightful_err.chars().filter(|c| !c.is_ascii_digit()).collect::<String>()));
            continue;
        }
        if !cell.boundary {
            r.count(&format!("cell:{}:{}", cell.contract, cell.variant));
        }
        // (2) every other sender must be refused and nothing may change
        let before = w.storage_digest();
        for (kind, addr) in &senders {
            if holders.contains(addr) || *addr == target {
                continue;
            }
            let cp = w.checkpoint();
            let out = apply(w, &with_sender(&cell.op, addr), None);
            let after = w.storage_digest();
            w.restore(cp);
            r.eval();
            r.count("matrix-cells");
            r.case(format!("{}|{}|{}|{}|{}", cell.contract, cell.variant, kind, phase, if out.ok { "ACCEPTED" } else { "refused" }));
            if out.ok {
                let mut rep = ops_so_far.clone();
                rep["acl_cell"] = json!({"contract": cell.contract, "variant": cell.variant, "sender": addr, "phase": phase});
                r.violation(
                    "C09",
                    "R1-unauthorized-sender-accepted",
                    format!("R1|{}|{}|{}|{}", cell.contract, cell.variant, kind, if phase == "before" { "before" } else { "after-transfer" }),
                    format!("{} {} accepted from {} ({}) in phase {}; role holders are {:?}", cell.contract, cell.variant, addr, kind, phase, holders),
                    0,
                );
            } else if after != before {
                r.violation(
                    "C09",
                    "R1-state-changed-on-refusal",
                    format!("R1s|{}|{}|{}", cell.contract, cell.variant, kind),
                    format!("{} {} from {} was refused but state changed", cell.contract, cell.variant, addr),
                    0,
                );
            }
        }
        r.sample_once(&format!("{}:{}", cell.contract, cell.variant), json!({"cell": format!("{} {}", cell.contract, cell.variant), "role_holders": holders, "payload": serde_json::to_value(&cell.op).unwrap_or_default(), "phase": phase}));
    }
}

/// one ACL history: build state, run the matrix, transfer every role, run it again, transfer again, run again
pub fn run_acl(seed: u64, r: &mut Report, stats: &mut crate::RunStats) {
    let mut rng = Rng::new(seed);
    let mut prof = Profile::default();
    prof.feed_real_pct = 100;
    prof.max_vamms = 2;
    prof.extra_vamm_pct = 100;
    prof.mismatch_decimals_pct = 0;
    prof.fluct_pct = 0;
    prof.heal_pct = 100;
    prof.w_ops = [40, 8, 6, 6, 0, 0, 0, 10, 0, 0, 0];
    prof.macro_pct = 0;
    prof.steps = (15, 30);
    prof.insurance_rich_pct = 100;
    let mut cfg = rand_cfg(&mut rng, &prof);
    // the extra (not live) vAMM is deployed the way scripts deploy a vAMM before the engine exists: without margin
    // engine and insurance fund. Until its owner configures an engine nobody holds its engine role (last phase below)
    if let Some(last) = cfg.vamms.last_mut() {
        if !last.live {
            last.unwired = true;
        }
    }
    let mut g = Gen::new(rng.fork(), prof);
    let mut h = History::new(&cfg, vec![], r, format!("acl seed={}", seed));
    g.run_history(&mut h, r);
    // make every privileged payload valid: fee pool holds collateral, a whitelist entry exists, funding is due, markets open
    let fee_pool = h.w.fee_pool.to_string();
    h.step(Op::Send { from: "bank".into(), to: fee_pool, amount: 1_000_000 }, r);
    h.step(Op::Engine { sender: "pauser".into(), msg: eng::ExecuteMsg::AddWhitelist { address: "dave".into() }, funds: 0 }, r);
    g.heal(&mut h, r);
    g.heal(&mut h, r);
    g.heal(&mut h, r);
    let nft = h.last.vamms[0].next_funding_time;
    let now = h.last.time;
    if nft >= now {
        h.step(Op::Advance { blocks: 10, secs: nft - now + 5, nanos: 0 }, r);
    }
    let mut roles = Roles {
        vamm_owner: "owner".into(),
        vamm_engine: h.w.engine.to_string(),
        vamm_insurance: h.w.insurance.to_string(),
        eng_owner: "owner".into(),
        pauser: "pauser".into(),
        ins_owner: "owner".into(),
        ins_engine: h.w.engine.to_string(),
        fee_owner: "owner".into(),
        feed_owner: "owner".into(),
    };
    let mut exes: Vec<String> = vec![];
    let base = json!({"acl_seed": seed.to_string()});
    // in half of the histories one account holds the engine's owner role AND its pauser role (the state every deployment is
    // in right after instantiation): handing one of the two roles over must leave the other one where it is
    if rng.chance(1, 2) {
        let st = h.step(Op::Engine { sender: roles.pauser.clone(), msg: eng::ExecuteMsg::UpdatePauser { pauser: roles.eng_owner.clone() }, funds: 0 }, r);
        if st.out.ok {
            exes.push(roles.pauser.clone());
            roles.pauser = roles.eng_owner.clone();
            r.count("histories-with-owner-and-pauser-roles-in-one-hand");
        }
    }
    matrix(&mut h.w, &roles, "before", &exes, &mut rng, r, &base);

    // accepted updates of NON-role fields (fee pool, price feed, caps, ratios) must not move any role
    let non_role: Vec<Op> = vec![
        Op::Engine {
            sender: roles.eng_owner.clone(),
            msg: eng::ExecuteMsg::UpdateConfig { owner: None, insurance_fund: None, fee_pool: Some("feepool2".into()), initial_margin_ratio: None, maintenance_margin_ratio: None, partial_liquidation_ratio: None, liquidation_fee: None },
            funds: 0,
        },
        Op::Vamm {
            sender: roles.vamm_owner.clone(),
            vamm: 0,
            msg: vm::ExecuteMsg::UpdateConfig { base_asset_holding_cap: Some(u(0)), open_interest_notional_cap: Some(u(0)), toll_ratio: None, spread_ratio: None, fluctuation_limit_ratio: None, margin_engine: None, insurance_fund: None, pricefeed: Some(h.w.feed.to_string()), spot_price_twap_interval: Some(3600) },
        },
        Op::Engine { sender: roles.pauser.clone(), msg: eng::ExecuteMsg::AddWhitelist { address: "carol".into() }, funds: 0 },
    ];
    for op in non_role {
        h.step(op, r);
    }
    r.count("non-role-updates-before-matrix");
    matrix(&mut h.w, &roles, "after-non-role-updates", &exes, &mut rng, r, &base);

    // role transfers, chained twice; each transfer is a real transaction by the current holder
    let rounds = [("newowner", "newpauser", "after1"), ("owner3", "pauser3", "after2")];
    for (no, np, phase) in rounds {
        let owner_steps: Vec<Op> = vec![
            Op::Vamm { sender: roles.vamm_owner.clone(), vamm: 0, msg: vm::ExecuteMsg::UpdateOwner { owner: no.into() } },
            Op::Engine {
                sender: roles.eng_owner.clone(),
                // half of the hand-overs restate (unchanged) risk parameters and addresses in the same message: an
                // ownership transfer must take effect whatever else the accepted message carries
                msg: eng::ExecuteMsg::UpdateConfig {
                    owner: Some(no.into()),
                    insurance_fund: if rng.chance(1, 4) { Some(h.last.eng.insurance_fund.clone()) } else { None },
                    fee_pool: if rng.chance(1, 4) { Some(h.last.eng.fee_pool.clone()) } else { None },
                    initial_margin_ratio: None,
                    maintenance_margin_ratio: if rng.chance(1, 4) { Some(u(h.last.eng.maint)) } else { None },
                    partial_liquidation_ratio: if rng.chance(1, 4) { Some(u(h.last.eng.partial)) } else { None },
                    liquidation_fee: if rng.chance(1, 3) { Some(u(h.last.eng.liq_fee)) } else { None },
                },
                funds: 0,
            },
            Op::Insurance { sender: roles.ins_owner.clone(), msg: ins::ExecuteMsg::UpdateOwner { owner: no.into() } },
            Op::FeePool { sender: roles.fee_owner.clone(), msg: fp::ExecuteMsg::UpdateOwner { owner: no.into() } },
            Op::Feed { sender: roles.feed_owner.clone(), msg: pf::ExecuteMsg::UpdateOwner { owner: no.into() } },
        ];
        let pauser_steps: Vec<Op> = vec![Op::Engine { sender: roles.pauser.clone(), msg: eng::ExecuteMsg::UpdatePauser { pauser: np.into() }, funds: 0 }];
        // the owner roles and the pauser role are handed over in either order, with the matrix in between: a hand-over of
        // one role moves that role only
        let owners_first = rng.chance(1, 2);
        for (gi, owners) in [owners_first, !owners_first].into_iter().enumerate() {
            let steps = if owners { &owner_steps } else { &pauser_steps };
            for op in steps {
                let st = h.step(op.clone(), r);
                if !st.out.ok {
                    r.violation("C09", "R2-role-transfer-refused", format!("R2|transfer|{}", op.kind()), format!("role transfer {} by the current holder failed: {}", op.kind(), st.out.err_text()), st.seq);
                }
            }
            if owners {
                for e in [roles.vamm_owner.clone(), roles.eng_owner.clone()] {
                    if !exes.contains(&e) && e != roles.pauser {
                        exes.push(e);
                    }
                }
                roles.vamm_owner = no.into();
                roles.eng_owner = no.into();
                roles.ins_owner = no.into();
                roles.fee_owner = no.into();
                roles.feed_owner = no.into();
            } else {
                let e = roles.pauser.clone();
                roles.pauser = np.into();
                if !exes.contains(&e) && e != roles.eng_owner {
                    exes.push(e);
                }
            }
            if gi == 0 {
                r.count("matrix-runs-between-owner-and-pauser-handover");
                matrix(&mut h.w, &roles, &format!("{}-half", phase), &exes, &mut rng, r, &base);
            }
        }
        // (a former holder that still holds another role is not an "ex" of everything: drop current holders)
        exes.retain(|e| *e != roles.pauser && *e != roles.eng_owner);
        r.count("role-transfer-rounds");
        matrix(&mut h.w, &roles, phase, &exes, &mut rng, r, &base);
    }
    // the vAMM's engine / insurance-fund roles follow its configuration. Each role is handed over by an update that
    // names ONLY that field (the other one follows in a second update, in either order), and the matrix runs after
    // each: the expected holders are what the accepted updates named, not what the vAMM reports
    let ins_first = rng.chance(1, 2);
    for round in 0..2 {
        let do_ins = (round == 0) == ins_first;
        let op = Op::Vamm {
            sender: roles.vamm_owner.clone(),
            vamm: 0,
            msg: vm::ExecuteMsg::UpdateConfig {
                base_asset_holding_cap: None,
                open_interest_notional_cap: None,
                toll_ratio: None,
                spread_ratio: None,
                fluctuation_limit_ratio: None,
                margin_engine: if do_ins { None } else { Some("engine2".into()) },
                insurance_fund: if do_ins { Some("insurance2".into()) } else { None },
                pricefeed: None,
                spot_price_twap_interval: None,
            },
        };
        let st = h.step(op.clone(), r);
        if !st.out.ok {
            r.violation("C09", "R2-role-transfer-refused", format!("R2|transfer|{}", op.kind()), format!("hand-over of the vAMM's {} role by its owner failed: {}", if do_ins { "insurance-fund" } else { "margin-engine" }, st.out.err_text()), st.seq);
            break;
        }
        if do_ins {
            exes.push(roles.vamm_insurance.clone());
            roles.vamm_insurance = "insurance2".into();
        } else {
            exes.push(roles.vamm_engine.clone());
            roles.vamm_engine = "engine2".into();
        }
        r.count("single-field-role-handovers");
        matrix(&mut h.w, &roles, "after-config", &exes, &mut rng, r, &base);
    }
    unwired_phase(&mut h, &roles, &exes, r, &base);
    h.finish(r);
    stats.absorb(&h, "W-ACL");
}

/// A vAMM whose margin engine has not been configured yet (instantiated with `margin_engine: None`, then opened by its
/// owner): the engine-only entry points have no role holder at all, so every sender must be refused.
fn unwired_phase(h: &mut History, roles: &Roles, exes: &[String], r: &mut Report, ops_so_far: &serde_json::Value) {
    let vi = h.w.vamms.len() - 1;
    if !h.w.cfg.vamms[vi].unwired {
        return;
    }
    // the extra vAMM keeps its deployer as owner throughout
    let st = h.step(Op::Vamm { sender: "owner".into(), vamm: vi, msg: vm::ExecuteMsg::SetOpen { open: true } }, r);
    let open = h.last.vamms[vi].open;
    if !open {
        r.inconclusive(format!("unwired vAMM could not be opened by its owner: {}", st.out.err_text()));
        return;
    }
    let period = h.w.cfg.vamms[vi].funding_period;
    h.step(Op::Advance { blocks: 10, secs: period + 5, nanos: 0 }, r);
    let q = h.last.vamms[vi].q;
    let b = h.last.vamms[vi].b;
    let w = &mut h.w;
    let mut senders: Vec<(String, String)> = vec![
        ("vamm_owner".into(), "owner".into()),
        ("eng_owner".into(), roles.eng_owner.clone()),
        ("pauser".into(), roles.pauser.clone()),
        ("engine".into(), w.engine.to_string()),
        ("insurance".into(), w.insurance.to_string()),
        ("vamm".into(), w.vamms[0].to_string()),
        ("fee_pool".into(), w.fee_pool.to_string()),
        ("pricefeed".into(), w.feed.to_string()),
        ("vamm_engine".into(), roles.vamm_engine.clone()),
        ("trader".into(), "alice".into()),
        ("liquidator".into(), "liquidator".into()),
        ("stranger".into(), "stranger".into()),
    ];
    for e in exes {
        senders.push(("ex_holder".into(), e.clone()));
    }
    let payloads: Vec<(&str, vm::ExecuteMsg)> = vec![
        ("swap_input", vm::ExecuteMsg::SwapInput { direction: vm::Direction::AddToAmm, quote_asset_amount: u((q / 1000).max(1)), base_asset_limit: u(0), can_go_over_fluctuation: false }),
        ("swap_input(go_over)", vm::ExecuteMsg::SwapInput { direction: vm::Direction::RemoveFromAmm, quote_asset_amount: u((q / 1000).max(1)), base_asset_limit: u(0), can_go_over_fluctuation: true }),
        ("swap_output", vm::ExecuteMsg::SwapOutput { direction: vm::Direction::AddToAmm, base_asset_amount: u((b / 1000).max(1)), quote_asset_limit: u(0) }),
        ("settle_funding", vm::ExecuteMsg::SettleFunding {}),
    ];
    let before = w.storage_digest();
    for (variant, msg) in payloads {
        for (kind, addr) in &senders {
            let cp = w.checkpoint();
            let out = apply(w, &Op::Vamm { sender: addr.clone(), vamm: vi, msg: msg.clone() }, None);
            let after = w.storage_digest();
            w.restore(cp);
            r.eval();
            r.count("matrix-cells");
            r.count("engine-unset-cells");
            r.case(format!("vamm(engine unset)|{}|{}|engine-unset|{}", variant, kind, if out.ok { "ACCEPTED" } else { "refused" }));
            if out.ok {
                let mut rep = ops_so_far.clone();
                rep["acl_cell"] = json!({"contract": "vamm(engine unset)", "variant": variant, "sender": addr, "phase": "engine-unset"});
                r.violation(
                    "C09",
                    "R1-unauthorized-sender-accepted",
                    format!("R1|vamm|{}|{}|engine-unset", variant, kind),
                    format!("vAMM without a configured margin engine accepted {} from {} ({}); nobody holds the engine role yet", variant, addr, kind),
                    0,
                );
            } else if after != before {
                r.violation("C09", "R1-state-changed-on-refusal", format!("R1s|vamm|{}|{}", variant, kind), format!("vamm {} from {} was refused but state changed", variant, addr), 0);
            }
        }
    }
}

#!/usr/bin/env python3
"""./check orchestrator: build the harness against /repo's working tree, shard the run,
merge monitor summaries, match violations against known_findings.json, write evidence.

Exit codes: 0 = property held on everything explored (open known findings are printed as
KNOWN-FINDING lines); 1 = at least one violation not listed in known_findings.json
(VIOLATION line with a replay file); 2 = inconclusive (build failure, nothing observed).
"""
import json
import os
import subprocess
import sys
import time

ROOT = os.path.dirname(os.path.dirname(os.path.abspath(__file__)))
HARNESS = os.path.join(ROOT, "harness")
TARGET = os.path.join(ROOT, "target")
BIN = os.path.join(TARGET, "release", "perpmon")
SHARDS = os.path.join(ROOT, ".shards")
REPLAYS = os.path.join(ROOT, "replays")
EVIDENCE = os.path.join(ROOT, "evidence")

sys.path.insert(0, os.path.dirname(os.path.abspath(__file__)))
from props import PROPS  # noqa: E402


def env():
    e = dict(os.environ)
    e["CARGO_NET_OFFLINE"] = "true"
    e["CARGO_TARGET_DIR"] = TARGET
    return e


def build(verbose=False):
    """cargo build of the harness; path dependencies make it pick up /repo's working tree."""
    t0 = time.time()
    p = subprocess.run(
        ["cargo", "build", "--release", "--offline"],
        cwd=HARNESS,
        env=env(),
        stdout=subprocess.PIPE,
        stderr=subprocess.STDOUT,
        text=True,
    )
    if p.returncode != 0 or not os.path.exists(BIN):
        tail = "\n".join([l for l in p.stdout.splitlines() if "error" in l.lower()][:20])
        return False, tail or p.stdout[-2000:], time.time() - t0
    return True, "", time.time() - t0


def load_known():
    path = os.path.join(ROOT, "known_findings.json")
    if not os.path.exists(path):
        return []
    with open(path) as f:
        return json.load(f).get("findings", [])


def run_shards(prop, tier, seed, nshards, budget, timeout_s):
    os.makedirs(SHARDS, exist_ok=True)
    procs = []
    for i in range(nshards):
        out = os.path.join(SHARDS, "%s-%s-%d.json" % (prop, tier, i))
        if os.path.exists(out):
            os.remove(out)
        cmd = [BIN, "run", "--prop", prop, "--tier", tier, "--seed", str(seed), "--shard", str(i), "--nshards", str(nshards), "--out", out]
        if budget:
            cmd += ["--budget", str(budget)]
        procs.append((i, out, subprocess.Popen(cmd, stdout=subprocess.DEVNULL, stderr=subprocess.PIPE, env=env())))
    results, notes = [], []
    deadline = time.time() + timeout_s
    for i, out, p in procs:
        left = max(1.0, deadline - time.time())
        try:
            _, err = p.communicate(timeout=left)
        except subprocess.TimeoutExpired:
            p.kill()
            p.communicate()
            notes.append("shard %d: wall-clock watchdog fired (inconclusive, not a violation)" % i)
            continue
        if p.returncode != 0:
            notes.append("shard %d: exit %s %s (inconclusive)" % (i, p.returncode, (err or b"")[-300:].decode("utf8", "replace")))
            continue
        try:
            with open(out) as f:
                results.append(json.load(f))
        except Exception as ex:  # noqa: BLE001
            notes.append("shard %d: unreadable summary: %s" % (i, ex))
    return results, notes


def merge(results):
    m = {
        "histories": 0, "steps": 0, "failed_tx": 0, "panics_as_reverts": 0, "evaluations": 0,
        "distinct": set(), "counters": {}, "samples": [], "violations": [], "inconclusive": [],
        "kinds": {}, "configs": {}, "workloads": {}, "errors": {}, "extra": [], "wall_s": 0.0,
    }
    seen_labels = set()
    for r in results:
        for k in ("histories", "steps", "failed_tx", "panics_as_reverts", "evaluations"):
            m[k] += int(r.get(k, 0))
        m["distinct"].update(r.get("distinct", []))
        for k, v in r.get("counters", {}).items():
            if k.startswith("sampled:"):
                continue
            m["counters"][k] = m["counters"].get(k, 0) + int(v)
        for s in r.get("samples", []):
            lab = s.get("label") if isinstance(s, dict) else None
            if lab is not None:
                if lab in seen_labels:
                    continue
                seen_labels.add(lab)
            if len(m["samples"]) < 12:
                m["samples"].append(s)
        m["violations"].extend(r.get("violations", []))
        for x in r.get("inconclusive", []):
            if x not in m["inconclusive"]:
                m["inconclusive"].append(x)
        for k, v in r.get("kinds", {}).items():
            e = m["kinds"].setdefault(k, {"ok": 0, "failed": 0})
            e["ok"] += v["ok"]
            e["failed"] += v["failed"]
        for name in ("configs", "workloads", "errors"):
            for k, v in r.get(name, {}).items():
                m[name][k] = m[name].get(k, 0) + int(v)
        if r.get("extra"):
            m["extra"].append(r["extra"])
        m["wall_s"] = max(m["wall_s"], float(r.get("wall_s", 0)))
    return m


MIRI_PROPS = {"C02": 8, "C03": 8}  # property -> number of parallel interpreted histories (thorough tier only)


def miri_leg(prop, seed, n, timeout_s=3000):
    """Supplementary leg: n short engine histories (a dozen transactions each, see plan.rs cfg!(miri)) executed by
    `cargo +nightly miri run`, i.e. under the undefined-behaviour / overflow-checking interpreter, with the property's
    monitor attached. Monitor violations found there are ordinary violations (they are real executions); an
    interpreter report (UB, unsupported operation, timeout) is a harness-level note in the evidence, never a verdict."""
    os.makedirs(SHARDS, exist_ok=True)
    e = env()
    e["MIRIFLAGS"] = "-Zmiri-disable-isolation"
    e["CARGO_TARGET_DIR"] = os.path.join(TARGET, "miri")
    procs = []
    for i in range(n):
        out = os.path.join(SHARDS, "%s-miri-%d.json" % (prop, i))
        err = os.path.join(SHARDS, "%s-miri-%d.stderr" % (prop, i))
        for f in (out, err):
            if os.path.exists(f):
                os.remove(f)
        cmd = ["cargo", "+nightly", "miri", "run", "--offline", "--", "run", "--prop", prop, "--tier", "quick", "--seed", str(seed),
               "--shard", str(100 + i), "--nshards", "1", "--budget", "10", "--out", out]
        procs.append((out, err, subprocess.Popen(cmd, cwd=HARNESS, env=e, stdout=subprocess.DEVNULL, stderr=open(err, "w"))))
    deadline = time.time() + timeout_s
    results, note = [], {"interpreted_histories": 0, "interpreted_steps": 0, "interpreter_reports": [], "result": ""}
    for out, err, p in procs:
        try:
            p.wait(timeout=max(1.0, deadline - time.time()))
        except subprocess.TimeoutExpired:
            p.kill()
            p.wait()
            note["interpreter_reports"].append("timed out (no verdict)")
            continue
        tail = ""
        try:
            tail = open(err).read()
        except OSError:
            pass
        if p.returncode != 0 or not os.path.exists(out):
            kind = "undefined behaviour reported" if "Undefined Behavior" in tail else ("unsupported operation" if "unsupported operation" in tail else "exit %s" % p.returncode)
            errs = [l for l in tail.splitlines() if l.startswith("error")]
            note["interpreter_reports"].append("%s: %s" % (kind, (errs[0] if errs else tail[-200:])[:300]))
            continue
        try:
            r = json.load(open(out))
        except Exception as ex:  # noqa: BLE001
            note["interpreter_reports"].append("unreadable summary: %s" % ex)
            continue
        results.append(r)
        note["interpreted_histories"] += int(r.get("histories", 0))
        note["interpreted_steps"] += int(r.get("steps", 0))
    note["result"] = ("no undefined behaviour or overflow reported by Miri on %d interpreted transactions" % note["interpreted_steps"]) if not note["interpreter_reports"] else "see interpreter_reports (harness-level notes, not a verdict)"
    return results, note


def match_known(prop, violations, known):
    """split violations into (listed-open, unlisted). A finding matches on exact signature."""
    open_sigs = {k["signature"]: k for k in known if k["property"] == prop and k.get("status") == "open"}
    listed, unlisted = {}, {}
    for v in violations:
        sig = v["signature"]
        if sig in open_sigs:
            listed.setdefault(sig, []).append(v)
        else:
            unlisted.setdefault(sig, []).append(v)
    return open_sigs, listed, unlisted


def write_evidence(prop, tier, seed, m, spec, n_unlisted, notes, wall, listed_counts, extra_cov=None):
    os.makedirs(EVIDENCE, exist_ok=True)
    errors_top = dict(sorted(m["errors"].items(), key=lambda kv: -kv[1])[:25])
    cov = {
        "evaluations": int(m["evaluations"]),
        "distinct_nontrivial": len(m["distinct"]),
        "rule": spec["rule"],
        "samples": m["samples"][:12] if m["samples"] else [],
        "exhaustive": bool(spec.get("exhaustive", False)),
        "histories": m["histories"],
        "steps": m["steps"],
        "failed_tx": m["failed_tx"],
        "panics_as_reverts": m["panics_as_reverts"],
        "antecedents": {k: v for k, v in sorted(m["counters"].items())},
        "op_kinds": m["kinds"],
        "configs": m["configs"],
        "workloads": m["workloads"],
        "natural_errors_top": errors_top,
        "distinct_cases_sample": sorted(m["distinct"])[:40],
        "known_findings_reproduced": listed_counts,
        "inconclusive": (m["inconclusive"] + notes)[:30],
    }
    if m["extra"]:
        cov["extra"] = m["extra"][:4]
    if extra_cov:
        cov.update(extra_cov)
    ev = {
        "property_id": prop,
        "tier": tier,
        "seed": int(seed),
        "level": spec["level"],
        "coverage": cov,
        "assumptions": spec.get("assumptions", []) + [
            "cw-multi-test 0.13.4 faithfully models wasmd message dispatch, sub-message/reply semantics and per-transaction atomicity",
            "a contract panic is an aborted, reverted transaction",
        ],
        "wall_s": round(wall, 2),
        "violations": int(n_unlisted),
    }
    with open(os.path.join(EVIDENCE, "%s.json" % prop), "w") as f:
        json.dump(ev, f, indent=1, default=str)


def cmd_check(prop, tier, seed, replay=None, budget=None, nshards=None):
    t0 = time.time()
    if prop not in PROPS:
        print("unknown property %s" % prop)
        return 2
    spec = PROPS[prop]
    ok, msg, bt = build()
    if not ok:
        print("INCONCLUSIVE property=%s harness does not build against /repo: %s" % (prop, msg[:500]))
        return 2
    known = load_known()
    if replay and prop == "C19":
        checker = os.path.join(ROOT, "orchestrator", "c19_check.py")
        out = os.path.join(SHARDS, "C19-replay.json")
        os.makedirs(SHARDS, exist_ok=True)
        p = subprocess.run(["bash", "-c", "set -o pipefail; %s intlog --file %s | python3 %s %s" % (BIN, replay, checker, out)], env=env())
        if p.returncode != 0:
            print("INCONCLUSIVE property=C19 replay failed to run")
            return 2
        r = json.load(open(out))
        open_sigs, listed, unlisted = match_known(prop, r.get("violations", []), known)
        for sig, vs in unlisted.items():
            print("VIOLATION property=C19 replay=%s rule=%s signature=%s" % (replay, vs[0]["rule"], sig))
            print("  detail: %s" % vs[0]["detail"][:400])
        return 1 if unlisted else 0
    if replay:
        os.makedirs(SHARDS, exist_ok=True)
        out = os.path.join(SHARDS, "%s-replay.json" % prop)
        p = subprocess.run([BIN, "replay", "--prop", prop, "--file", replay, "--out", out], env=env())
        if p.returncode != 0:
            print("INCONCLUSIVE property=%s replay failed to run" % prop)
            return 2
        with open(out) as f:
            r = json.load(f)
        open_sigs, listed, unlisted = match_known(prop, r.get("violations", []), known)
        for sig, vs in listed.items():
            print("KNOWN-FINDING: property=%s %s [replayed %d]" % (prop, open_sigs[sig]["what"], len(vs)))
        for sig, vs in unlisted.items():
            print("VIOLATION property=%s replay=%s rule=%s signature=%s" % (prop, replay, vs[0]["rule"], sig))
            print("  detail: %s" % vs[0]["detail"][:400])
        return 1 if unlisted else 0

    if spec.get("runner"):
        # properties with their own orchestrated workload (e.g. C19's offline Python checker)
        return spec["runner"](prop, tier, seed, spec, known, t0)

    ncpu = os.cpu_count() or 4
    ns = nshards or min(16, ncpu)
    timeout = spec.get("timeout", {}).get(tier, 900 if tier == "quick" else 7200)
    results, notes = run_shards(prop, tier, seed, ns, budget, timeout)
    miri_note = None
    if tier == "thorough" and prop in MIRI_PROPS and not budget:
        miri_results, miri_note = miri_leg(prop, seed, MIRI_PROPS[prop])
        results = results + miri_results
    m = merge(results)
    open_sigs, listed, unlisted = match_known(prop, m["violations"], known)
    listed_counts = {sig: sum(int(v.get("count", 1)) for v in vs) for sig, vs in listed.items()}

    rc = 0
    # essential antecedents: a run that never reached the rule's antecedent decides nothing
    missing = [k for k in spec.get("essential", []) if m["counters"].get(k, 0) == 0]
    if not results:
        notes.append("no shard produced a summary")
    if missing:
        notes.append("essential antecedents never met: %s" % ", ".join(missing))

    for k in known:
        if k["property"] == prop and k.get("status") == "open":
            n = listed_counts.get(k["signature"], 0)
            print("KNOWN-FINDING: property=%s %s [signature %s; reproduced %d times in this run]" % (prop, k["what"], k["signature"], n))

    if unlisted:
        os.makedirs(REPLAYS, exist_ok=True)
        for idx, (sig, vs) in enumerate(sorted(unlisted.items())):
            v = vs[0]
            path = os.path.join(REPLAYS, "%s-%s-%d.json" % (prop, seed, idx))
            with open(path, "w") as f:
                rep = v.get("replay")
                if isinstance(rep, str):
                    f.write(rep)
                else:
                    json.dump(rep, f)
            print("VIOLATION property=%s replay=%s rule=%s signature=%s count=%d" % (prop, path, v["rule"], sig, sum(int(x.get("count", 1)) for x in vs)))
            print("  detail: %s" % v["detail"][:600])
        rc = 1
    elif not results or missing or (m["evaluations"] == 0):
        rc = 2

    wall = time.time() - t0
    write_evidence(prop, tier, seed, m, spec, len(unlisted), notes, wall, listed_counts, {"miri": miri_note} if miri_note else None)
    status = {0: "HELD", 1: "VIOLATED", 2: "INCONCLUSIVE"}[rc]
    print("%s property=%s tier=%s seed=%s histories=%d steps=%d evaluations=%d distinct=%d unlisted_violations=%d known_reproduced=%d wall=%.1fs"
          % (status, prop, tier, seed, m["histories"], m["steps"], m["evaluations"], len(m["distinct"]), len(unlisted), sum(listed_counts.values()), wall))
    for n in (notes + m["inconclusive"])[:10]:
        print("  note: %s" % n)
    return rc


def main(argv):
    if not argv or argv[0] in ("-h", "--help"):
        print("usage: ./check --setup | ./check <ID> [--tier quick|thorough] [--seed N] [--replay file] [--budget N] [--shards N]")
        return 0
    if argv[0] == "--setup":
        ok, msg, bt = build()
        print("setup: harness build %s in %.1fs %s" % ("ok" if ok else "FAILED", bt, msg[:2000]))
        return 0 if ok else 1
    prop = argv[0]
    tier = os.environ.get("VERIF_TIER", "quick")
    seed = int(os.environ.get("VERIF_SEED", "1") or "1")
    replay = None
    budget = None
    shards = None
    explicit_tier = None
    i = 1
    while i < len(argv):
        if argv[i] == "--tier":
            explicit_tier = argv[i + 1]
            i += 2
        elif argv[i] == "--seed":
            seed = int(argv[i + 1])
            i += 2
        elif argv[i] == "--replay":
            replay = argv[i + 1]
            i += 2
        elif argv[i] == "--budget":
            budget = int(argv[i + 1])
            i += 2
        elif argv[i] == "--shards":
            shards = int(argv[i + 1])
            i += 2
        else:
            i += 1
    if explicit_tier:
        tier = explicit_tier
    if tier not in ("quick", "thorough"):
        tier = "quick"
    return cmd_check(prop, tier, seed, replay, budget, shards)


if __name__ == "__main__":
    sys.exit(main(sys.argv[1:]))

#!/usr/bin/env python3
"""Regenerates /verif/MANIFEST.json from orchestrator/props.py (single source of truth)."""
import json, os, sys
sys.path.insert(0, os.path.dirname(os.path.abspath(__file__)))
from props import PROPS
ROOT = os.path.dirname(os.path.dirname(os.path.abspath(__file__)))
ids = [json.loads(l)["id"] for l in open(os.path.join(ROOT, "properties.jsonl"))]
checks, na = [], []
for pid in ids:
    if pid not in PROPS:
        na.append({"property_id": pid, "reason": "no monitor built yet"})
        continue
    s = PROPS[pid]
    checks.append({
        "property_id": pid,
        "quick_cmd": "./check %s --tier quick" % pid,
        "thorough_cmd": "./check %s --tier thorough" % pid,
        "evidence_file": "evidence/%s.json" % pid,
        "replay_cmd_template": "./check %s --replay {path}" % pid,
        "engine": "perpmon",
        "level_claimed": {"category": s["level"], "text": s["text"], "design_ref": s["design_ref"]},
        "level_note": s["note"],
        "technique": s["technique"],
    })
m = {
    "version": 1,
    "setup_cmd": "./check --setup",
    "hooks": {
        "guard": "perp_verif (reserved cfg name; no source hooks are needed or present)",
        "enable": "n/a - the harness (harness/, crate perpmon) links the unmodified crates of /repo by path and observes them through public entry points, raw storage dumps, balances and events; failpoints are Contract/Bank wrappers inside the harness",
        "baseline_off_cmd": "cd /repo && cargo test --workspace --no-fail-fast --offline",
        "source_commits": [],
        "add_only": True,
    },
    "engines": [{"name": "perpmon", "path": "harness", "serves_properties": [c["property_id"] for c in checks],
                 "kind_free_text": "Rust harness running the real contracts in cw-multi-test: workload generators (W-ENG, W-FAULT, W-VAMM, W-PF, W-INT, W-ACL, W-TWIN), failpoint wrappers, runtime monitors; Python orchestrator ./check shards it and writes evidence"}],
    "checks": checks,
    "notes": "Runtime monitoring only: every verdict is an oracle observing executions of the real contract code. Genuine defects found are either repaired in /repo by 'fix:' commits or listed as open entries in known_findings.json (see DESIGN.md §7/§10).",
    "not_applicable": na,
}
json.dump(m, open(os.path.join(ROOT, "MANIFEST.json"), "w"), indent=1)
print("checks", len(checks), "not_applicable", len(na))

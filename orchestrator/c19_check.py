#!/usr/bin/env python3
"""Offline oracle for C19: reads the JSON-line log produced by `perpmon intlog` on stdin and
checks every record against Python's arbitrary-precision integers. Writes a summary JSON."""
import json
import sys

MAX = (1 << 128) - 1


def val(d):
    """mathematical value of a described Integer (sign flag + magnitude)"""
    m = int(d["m"])
    return -m if d["n"] else m


def tdiv(a, b):
    q = abs(a) // abs(b)
    return -q if (a < 0) != (b < 0) else q


def sign_class(x):
    return "0" if x == 0 else ("+" if x > 0 else "-")


def mag_rel(a, b):
    if abs(a) == abs(b):
        return "=="
    return "<" if abs(a) < abs(b) else ">"


class Checker:
    def __init__(self):
        self.evals = 0
        self.records = 0
        self.distinct = set()
        self.viol = {}
        self.samples = []
        self.counters = {}

    def count(self, k):
        self.counters[k] = self.counters.get(k, 0) + 1

    def violation(self, rule, sig, detail, rec):
        e = self.viol.get(sig)
        if e:
            e["count"] += 1
        else:
            self.viol[sig] = {"count": 1, "property": "C19", "rule": rule, "signature": sig, "detail": detail, "step": 0,
                              "replay": {"a": rec["a"], "b": rec["b"]}}

    def consistency(self, name, d, rec, expect=None):
        """Equality, ordering, sign predicates and the string form of one value must agree."""
        if d == "panic":
            # a total function of the API (comparison with zero, sign predicate, printing, negation, abs) panicked
            self.evals += 1
            self.violation("R3-total-function-panicked", "R3|panic|%s" % name, "describing %s panicked: comparisons, sign predicates, printing, negation and abs are total" % name, rec)
            return
        v = val(d)
        self.evals += 1
        ctx = "%s(%s%s, %s%s)" % (name, "-" if rec["a"][0] else "", rec["a"][1], "-" if rec["b"][0] else "", rec["b"][1])
        if expect is not None and v != expect:
            self.violation("R1-arithmetic", "R1|%s|%s%s" % (name, sign_class(int(rec['_a'])), sign_class(int(rec['_b']))), "%s = %s, mathematically %s" % (ctx, v, expect), rec)
            return
        zero = (int(d["m"]) == 0)
        bad = []
        if d["eqz"] != zero:
            bad.append("==zero is %s" % d["eqz"])
        if d["ltz"] != (v < 0):
            bad.append("<zero is %s" % d["ltz"])
        if d["gtz"] != (v > 0):
            bad.append(">zero is %s" % d["gtz"])
        if d["isneg"] != (v < 0):
            bad.append("is_negative is %s" % d["isneg"])
        if d["iszero"] != zero:
            bad.append("is_zero is %s" % d["iszero"])
        if d["s"] != str(v):
            bad.append("prints as %r" % d["s"])
        if bad:
            kind = "zero-result" if zero else "nonzero"
            role = "operand" if name in ("a", "b") else "result"
            self.violation("R3-zero-and-sign-consistency", "R3|%s|%s|%s" % (role, kind, name if role == "result" else "ctor"),
                           "%s has magnitude %s sign-flag %s but %s" % (ctx, d["m"], d["n"], "; ".join(bad)), rec)
        if zero:
            self.count("zero-results")

    def check(self, rec):
        self.records += 1
        if rec["da"] == "panic" or rec["db"] == "panic":
            self.evals += 1
            self.violation("R3-total-function-panicked", "R3|panic|operand", "describing an operand built by the public constructors panicked", rec)
            return
        a = val(rec["da"])
        b = val(rec["db"])
        rec["_a"], rec["_b"] = a, b
        # operands themselves come from the public constructors
        exp_a = -int(rec["a"][1]) if rec["a"][0] else int(rec["a"][1])
        exp_b = -int(rec["b"][1]) if rec["b"][0] else int(rec["b"][1])
        self.consistency("a", rec["da"], rec, exp_a)
        self.consistency("b", rec["db"], rec, exp_b)
        ops = {
            "add": a + b, "sub": a - b, "mul": a * b, "div": (tdiv(a, b) if b != 0 else None),
        }
        for name, m in ops.items():
            over = m is None or abs(m) > MAX
            case = "%s|%s%s|%s|%s" % (name, sign_class(a), sign_class(b), mag_rel(a, b), "overflow" if over else ("zero" if m == 0 else "ok"))
            self.distinct.add(case)
            for form in (name, name + "_assign"):
                u = rec[form]
                if u == "panic":
                    if not over:
                        self.violation("R1-arithmetic", "R1|%s|panic" % form, "%s panicked on (%s, %s) although the result %s is representable" % (form, a, b, m), rec)
                    self.evals += 1
                elif not over:
                    self.consistency(form, u, rec, m)
                # unchecked result on overflow: unspecified, not asserted
            c = rec["c" + name]
            self.evals += 1
            if c == "err":
                if not over:
                    self.violation("R2-checked-fails-without-cause", "R2|c%s|spurious-error" % name, "checked_%s(%s, %s) failed although the result %s is representable" % (name, a, b, m), rec)
                else:
                    self.count("checked-overflow-detected")
            else:
                if over:
                    self.violation("R2-checked-misses-overflow", "R2|c%s|missed" % name, "checked_%s(%s, %s) returned %s but the result is not representable / divisor is zero" % (name, a, b, val(c)), rec)
                else:
                    self.consistency("checked_" + name, c, rec, m)
                    u = rec[name]
                    if u != "panic" and (u["n"], u["m"]) != (c["n"], c["m"]):
                        # same mathematical value may still be encoded differently (negative zero)
                        self.violation("R2-checked-differs-from-unchecked", "R2|%s|encoding" % name,
                                       "checked_%s gives (neg=%s, %s) but the operator gives (neg=%s, %s)" % (name, c["n"], c["m"], u["n"], u["m"]), rec)
        self.consistency("neg", rec["neg"], rec, -a)
        self.consistency("abs", rec["abs"], rec, abs(a))
        self.distinct.add("unary|%s" % sign_class(a))
        # comparisons
        self.evals += 1
        expc = (a > b) - (a < b)
        cmp_bad = []
        if rec["cmp"] != expc:
            cmp_bad.append("cmp=%s" % rec["cmp"])
        if rec["pcmp"] != expc:
            cmp_bad.append("partial_cmp=%s" % rec["pcmp"])
        for k, e in (("eq", a == b), ("lt", a < b), ("le", a <= b), ("gt", a > b), ("ge", a >= b)):
            if rec[k] != e:
                cmp_bad.append("%s=%s" % (k, rec[k]))
        self.distinct.add("cmp|%s%s|%s" % (sign_class(a), sign_class(b), mag_rel(a, b)))
        if cmp_bad:
            self.violation("R1-comparison", "R1|cmp|%s%s" % (sign_class(a), sign_class(b)), "comparing %s with %s: %s" % (a, b, ", ".join(cmp_bad)), rec)
        # string form round trip
        self.evals += 1
        if rec["str"] != str(a) or not rec["parse_ok"] or not rec["parse_eq"] or not rec["serde_eq"]:
            self.violation("R3-string-round-trip", "R3|roundtrip|%s" % sign_class(a),
                           "to_string(%s) = %r, parse ok %s equal %s, serde %r equal %s" % (a, rec["str"], rec["parse_ok"], rec["parse_eq"], rec["serde"], rec["serde_eq"]), rec)
        elif rec["parse_desc"]:
            self.consistency("from_str", rec["parse_desc"], rec, a)
        if len(self.samples) < 4 and self.records % 997 == 1:
            self.samples.append({k: rec[k] for k in ("a", "b", "add", "cadd", "div", "cmp", "str")})


def main():
    out = sys.argv[1] if len(sys.argv) > 1 else None
    c = Checker()
    n_boundary = 0
    for line in sys.stdin:
        line = line.strip()
        if not line:
            continue
        rec = json.loads(line)
        if rec.get("set") == "boundary":
            n_boundary += 1
        c.check(rec)
    res = {"records": c.records, "boundary_records": n_boundary, "evaluations": c.evals, "distinct": sorted(c.distinct), "violations": list(c.viol.values()),
           "samples": c.samples, "counters": c.counters}
    s = json.dumps(res)
    if out:
        with open(out, "w") as f:
            f.write(s)
    else:
        print(s)


if __name__ == "__main__":
    main()

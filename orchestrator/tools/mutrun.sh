#!/bin/bash
# apply a mutation patch to /repo, run the given checks (quick), revert
patch=$1; shift
cd /repo && git status --short | grep -v '^??' | head -3
git -C /repo apply $patch || { echo "PATCH DOES NOT APPLY"; exit 1; }
cd /verif
for p in "$@"; do
  tier=quick; pp=$p
  case $p in *:t) tier=thorough; pp=${p%:t};; esac
  ./check $pp --tier $tier > /tmp/mut_$pp.txt 2>&1; rc=$?
  echo "$pp rc=$rc $(grep -E '^(HELD|VIOLATED|INCONCLUSIVE)' /tmp/mut_$pp.txt | cut -c1-160)"
  grep -E "^VIOLATION" /tmp/mut_$pp.txt | cut -c1-260 | head -4
  grep -E "^  detail" /tmp/mut_$pp.txt | cut -c1-300 | head -2
done
git -C /repo checkout -- . ; git -C /repo status --short | grep -v '^??' | head -3

import json,sys,subprocess
f=sys.argv[1]; n=int(sys.argv[2]) if len(sys.argv)>2 else 6
d=json.load(open(f))
c=d['cfg']; print({k:c[k] for k in c if k!='vamms'}); 
for v in c['vamms']: print(v)
print(d.get('seed_tag'), len(d['ops']))
for o in d['ops'][-n:]: print(json.dumps(o)[:330])

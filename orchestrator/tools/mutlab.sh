#!/bin/bash
# mutlab.sh: run the checks against a patched SCRATCH copy of /repo without touching /repo, so that
# background sweeps that build from /repo are not disturbed. Development aid only: the registered
# checks and the recorded seeded results (run_seeded.py) always run against /repo itself.
#
#   mutlab.sh init                      create /tmp/mutlab/repo (git worktree of /repo HEAD) and /tmp/mutlab/verif
#   mutlab.sh run <patch.diff> <ID[:t]>...   sync /verif sources, apply patch in the lab repo, run checks, revert
#   mutlab.sh clean                     remove the lab (worktree + build output)
LAB=${MUTLAB:-/tmp/mutlab}
sync_verif() {
  mkdir -p $LAB/verif
  rsync -a --delete --exclude target --exclude .git --exclude .shards --exclude replays --exclude evidence /verif/ $LAB/verif/
  mkdir -p $LAB/verif/evidence
  sed -i "s#path = \"/repo/#path = \"$LAB/repo/#" $LAB/verif/harness/Cargo.toml
}
case "$1" in
  init)
    mkdir -p $LAB
    [ -d $LAB/repo ] || git -C /repo worktree add --detach $LAB/repo HEAD >/dev/null
    git -C $LAB/repo checkout -q --detach $(git -C /repo rev-parse HEAD); git -C $LAB/repo checkout -- .
    sync_verif
    (cd $LAB/verif && ./check --setup)
    ;;
  run)
    patch=$(readlink -f "$2"); shift 2
    sync_verif
    git -C $LAB/repo checkout -- . ; git -C $LAB/repo clean -fdq -e target
    git -C $LAB/repo apply "$patch" || { echo "PATCH DOES NOT APPLY"; exit 1; }
    PFX=${MUTPFX:-mut}
    cd $LAB/verif
    for p in "$@"; do
      tier=quick; pp=$p
      case $p in *:t) tier=thorough; pp=${p%:t};; esac
      ./check $pp --tier $tier > /tmp/${PFX}_$pp.txt 2>&1; rc=$?
      echo "$pp rc=$rc $(grep -E '^(HELD|VIOLATED|INCONCLUSIVE)' /tmp/${PFX}_$pp.txt | cut -c1-160)"
      grep -E "^VIOLATION" /tmp/${PFX}_$pp.txt | cut -c1-260 | head -4
      grep -E "^  detail" /tmp/${PFX}_$pp.txt | cut -c1-300 | head -2
    done
    git -C $LAB/repo checkout -- . ; git -C $LAB/repo clean -fdq -e target
    ;;
  clean)
    git -C /repo worktree remove --force $LAB/repo 2>/dev/null; rm -rf $LAB; git -C /repo worktree prune
    ;;
  *) echo "usage: mutlab.sh init | run <patch> <ID[:t]>... | clean"; exit 2;;
esac

#!/usr/bin/env python3
"""harvest.py <id> <name> <checks,comma> [note] : copy a confirmed sub-agent mutation into /verif/seeded/<name>/ with the detection record"""
import json, os, re, shutil, sys
mid, name, checks = sys.argv[1], sys.argv[2], sys.argv[3].split(',')
note = sys.argv[4] if len(sys.argv) > 4 else ""
src = "/tmp/wt/%s/MUTATION" % mid
PFX = os.environ.get("MUTPFX", "mut")
dst = "/verif/seeded/%s" % name
os.makedirs(dst, exist_ok=True)
for f in ("patch.diff", "demo.diff"):
    shutil.copy(os.path.join(src, f), os.path.join(dst, f))
meta = json.load(open(os.path.join(src, "meta.json")))
det = {}
for c in checks:
    t = open("/tmp/%s_%s.txt" % (PFX, c)).read()
    status = re.search(r"^(HELD|VIOLATED|INCONCLUSIVE).*$", t, re.M)
    sigs = re.findall(r"^VIOLATION property=\S+ replay=\S+ rule=(\S+) signature=(.*?) count=(\d+)", t, re.M)
    det[c] = {"result": status.group(1) if status else "?", "line": status.group(0)[:200] if status else "", "violations": [{"rule": r, "signature": s, "count": int(n)} for r, s, n in sigs[:6]]}
meta_out = {
    "breaks_property": meta.get("property"),
    "origin": "independent sub-agent given only the property text and a scratch worktree",
    "summary": meta.get("summary"),
    "needs_to_manifest": meta.get("needs_to_manifest"),
    "why_existing_tests_pass": meta.get("why_existing_tests_pass"),
    "demo_test_name": meta.get("demo_test_name"),
    "confirmed_by_me": "in the scratch worktree: cargo test --workspace --offline --no-fail-fast with patch+demo -> the 410 existing tests pass and only the demo test(s) fail; after git apply -R patch.diff every test incl. the demo passes",
    "what_i_ran": ["git -C /repo apply seeded/%s/patch.diff" % name] + ["./check %s --tier quick" % c for c in checks] + ["git -C /repo checkout -- ."],
    "detection": det,
    "note": note,
}
json.dump(meta_out, open(os.path.join(dst, "meta.json"), "w"), indent=1)
print(name, {c: det[c]["result"] for c in det})

#!/bin/bash
# usage: sweep.sh tier seed [shards] [props...]   run the checks from the directory this script lives in (works in a `vp run` snapshot)
cd "$(dirname "$(readlink -f "$0")")/../.." || exit 2
tier=$1; seed=$2; shards=${3:-16}; shift 3
props=${@:-C01 C02 C03 C04 C05 C06 C07 C08 C09 C10 C11 C12 C13 C14 C15 C16 C17 C18 C19 C20}
mkdir -p sweep_out
for p in $props; do
  VERIF_SEED=$seed ./check $p --tier $tier --shards $shards > sweep_out/${p}_${tier}_${seed}.txt 2>&1; rc=$?
  echo "$p rc=$rc $(grep -E '^(HELD|VIOLATED|INCONCLUSIVE)' sweep_out/${p}_${tier}_${seed}.txt | cut -c1-220)"
  grep -E "^VIOLATION|^  detail|^  note" sweep_out/${p}_${tier}_${seed}.txt | cut -c1-500 | head -8
  [ $rc -eq 1 ] && cp -r replays sweep_out/replays_$p 2>/dev/null
done
exit 0

#!/usr/bin/env python3
"""gen_prompts.py <suffix> <theme-file> [ids...] : write /tmp/wt/prompts/<ID>.txt for a mutation round.

Each prompt = tools/PROMPT.txt with the property's text and the scratch worktree /tmp/wt/<ID><suffix> filled in, followed
by the round's theme (a text file in which the token USED is replaced by the short labels of the changes already kept for
that property, taken from the directory names under seeded/). Create the worktrees first:
    git -C /repo worktree add --detach /tmp/wt/<ID><suffix> HEAD
and start one fresh sub-agent per prompt ("Your complete task instructions are in the file ... Work only inside ...")."""
import json, os, sys
ROOT = os.path.dirname(os.path.dirname(os.path.dirname(os.path.abspath(__file__))))
suffix, theme_file = sys.argv[1], sys.argv[2]
ids = sys.argv[3:] or ["C%02d" % i for i in range(1, 21)]
props = {json.loads(l)["id"]: json.loads(l) for l in open(os.path.join(ROOT, "properties.jsonl"))}
tmpl = open(os.path.join(ROOT, "orchestrator", "tools", "PROMPT.txt")).read()
theme = open(theme_file).read()
seeded = sorted(os.listdir(os.path.join(ROOT, "seeded")))
os.makedirs("/tmp/wt/prompts", exist_ok=True)
for pid in ids:
    p = props[pid]
    text = "[%s] %s\n\n%s\n\nQuantified over: %s" % (pid, p["title"], p["statement"], p["quantifier"]["text"])
    used = [s[len(pid):].lstrip("abcdefghijklmnopqrstuvwxyz").lstrip("-") for s in seeded if s.startswith(pid)]
    body = tmpl.replace("WORKTREE", "/tmp/wt/%s%s" % (pid, suffix)).replace("PROPERTY_TEXT", text).replace('"ID"', '"%s"' % pid)
    open("/tmp/wt/prompts/%s.txt" % pid, "w").write(body + "\n" + theme.replace("USED", "; ".join(used)))
    print(pid, len(used), "earlier changes")

#!/bin/bash
# round.sh <worktree-id> <check>... : confirm a sub-agent mutation in its scratch worktree (suite green except demo; demo
# green without the patch), then run the named checks against it in the mutation lab. Output files /tmp/<id>_<check>.txt
id=$1; shift
echo "== $id patch:"; grep -E "^(\+\+\+|[-+][^-+])" /tmp/wt/$id/MUTATION/patch.diff | cut -c1-200 | head -40
bash /verif/orchestrator/tools/confirm.sh $id 2>&1 | grep -E "PATCH|FAILED|not applied" | head -8
MUTPFX=$id MUTLAB=${MUTLAB:-/tmp/mutlab} /verif/orchestrator/tools/mutlab.sh run /tmp/wt/$id/MUTATION/patch.diff "$@" 2>&1 | grep -v "^WARNING" | head -12

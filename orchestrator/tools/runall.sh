#!/bin/bash
# usage: runall.sh tier seed
cd /verif
for p in C01 C02 C03 C04 C05 C06 C07 C08 C09 C10 C11 C12 C13 C14 C15 C16 C17 C18 C19 C20; do
  VERIF_SEED=$2 ./check $p --tier $1 > /tmp/out_$p.txt 2>&1; rc=$?
  echo "$p rc=$rc $(grep -E '^(HELD|VIOLATED|INCONCLUSIVE)' /tmp/out_$p.txt | cut -c1-200)"
  grep -E "^VIOLATION|^  detail|^  note" /tmp/out_$p.txt | cut -c1-400 | head -8
  python3-vt - <<PY
import json, jsonschema
try:
    jsonschema.validate(json.load(open('/verif/evidence/$p.json')), json.load(open('/root/.vp/EVIDENCE.schema.json')))
except Exception as e:
    print("   EVIDENCE INVALID", str(e)[:300])
PY
done

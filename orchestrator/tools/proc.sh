#!/bin/bash
# proc.sh <lab> <ids...>: wait for each id's MUTATION/meta.json, then confirm + run its check in the given lab
lab=$1; shift
for id in "$@"; do
  while [ ! -f /tmp/wt/$id/MUTATION/meta.json ] || [ ! -f /tmp/wt/$id/MUTATION/patch.diff ]; do sleep 20; done
  sleep 45   # let the agent finish its last verification runs
  p=${id%?}
  MUTLAB=$lab bash /verif/orchestrator/tools/round.sh $id $p > /tmp/wt/r12_$id.log 2>&1
done

#!/bin/bash
# confirm a sub-agent mutation in its own scratch worktree: suite green except the demo; demo passes without the patch
id=$1; wt=/tmp/wt/$id; cd $wt || exit 1
export CARGO_TARGET_DIR=$wt/target CARGO_NET_OFFLINE=true
git apply --check -R MUTATION/patch.diff 2>/dev/null || { echo "patch not applied in worktree?"; }
out=$(cargo test --workspace --offline --no-fail-fast 2>&1)
echo "$out" | grep -E "^test result" | awk '{p+=$4; f+=$6} END {print "WITH PATCH: passed="p" failed="f}'
echo "$out" | grep -E "^test .* FAILED" | head -5
git apply -R MUTATION/patch.diff
out2=$(cargo test --workspace --offline --no-fail-fast 2>&1)
echo "$out2" | grep -E "^test result" | awk '{p+=$4; f+=$6} END {print "WITHOUT PATCH: passed="p" failed="f}'
git apply MUTATION/patch.diff

"""Per-property metadata used for evidence files and MANIFEST generation."""

PROPS = {}


def prop(pid, **kw):
    PROPS[pid] = kw


prop(
    "C01",
    level="exploration",
    technique="runtime invariant + history monitor over vAMM reserve observations (direct swap storms and engine-driven histories)",
    design_ref="DESIGN.md §4 C01",
    rule="evaluations = transactions after which a vAMM's reserves or net position changed (W-VAMM direct swaps with a harness account as engine, W-ENG engine histories). "
         "R1 scaled product floor(q*b/D) monotone along every intermediate reserve pair reported by the swap events; R2 base+net position == initial base; "
         "R3 map net-position -> max quote seen (while base >= 1 unit), every revisit must not be lower. distinct = (swap kind, direction, division remainder != 0, "
         "amount/reserve magnitude bucket, revisit of an earlier net position).",
    essential=["swap-legs", "swaps-with-remainder", "R3-revisits"],
    text="Held on every observed swap of the real vAMM code across random reserve pairs, decimals and amounts; exploration level because the quantifier is over all inputs/histories and only sampled ones are executed.",
    note="trusts cw-multi-test dispatch, the vAMM State/event reports and the monitor's 256-bit arithmetic",
)
prop(
    "C02",
    level="exploration",
    technique="runtime invariant monitor at every transaction boundary (sum of raw position records vs vAMM net position), incl. failed and fault-injected transactions",
    design_ref="DESIGN.md §4 C02",
    rule="evaluations = engine transactions (successful, failed, fault-injected) after which sum over ALL raw position records per vAMM was compared with the vAMM's total_position_size. "
         "distinct = (operation, engine reply path read from events, side, prior position direction, outcome).",
    essential=["path:update_position", "path:close_position", "path:liquidation"],
    text="Invariant checked after every transaction of random multi-trader histories with liquidations, reversals, partial closes and injected failures.",
    note="positions are read from the engine's raw storage so no holder can be missed; trusts cw-multi-test atomicity",
)
prop(
    "C03",
    level="exploration",
    technique="conservation checker over balance snapshots + recipient rule on balance deltas, cross-validated against the parsed transfer log",
    design_ref="DESIGN.md §4 C03",
    rule="evaluations = transactions whose pre/post balances of every known account and contract (and cw20 total supply) were compared. R1 total conserved; R2 in engine transactions only sender, engine, "
         "insurance fund and fee pool may change; R3 a trader liquidated by someone else has zero delta. distinct = (operation, reply path, set of roles whose balance moved with sign).",
    essential=["liquidations-by-others"],
    text="Conservation and recipient whitelist checked on every transaction for native and cw20 collateral, all fee settings.",
    note="accounts tracked: all actors, all contracts, cw20 supply; a payment to an untracked address shows up as a conservation failure",
)
prop(
    "C08",
    level="fault_enumeration",
    technique="failpoint injection at every sub-message (vAMM, cw20, bank, insurance fund) of every engine transaction + byte-level state comparison + residue check",
    design_ref="DESIGN.md §4 C08",
    rule="evaluations = engine transaction attempts. For every engine transaction of every history, attempt k=1,2,... re-issues it with the k-th sub-message execution (bank send, cw20 call, vAMM call, insurance withdrawal) forced to fail, "
         "until an attempt no longer reaches index k (that one is the real execution). R1 a reached fault must make the call fail; R2 after any failed attempt the SHA-256 of the whole chain storage (all contracts + bank) and all balances equal the pre-state; "
         "R3 no tmp-swap / sent-funds / tmp-liquidator key after any transaction. distinct = (operation, fault index, failed sub-message label, outcome) and (operation, message-tree shape, outcome).",
    essential=["fault-points-fired", "unfaulted-ok", "natural-failures"],
    text="Every node of every observed message tree was failed once, on every reachable pre-state the workload produced; fault enumeration over the executions generated, not over all states.",
    note="failpoints are Contract/Bank wrappers in the harness (no repo change); reply-level errors (engine's own reply code failing) occur naturally and are covered by R2/R3",
)
prop(
    "C10",
    level="exploration",
    technique="frame-condition monitor: field-by-field comparison of every bystander's raw position record across each transaction; storage digest across query batteries",
    design_ref="DESIGN.md §4 C10",
    rule="evaluations = engine transactions checked. For each step, every position whose trader is neither the sender nor the trader named by Liquidate must be byte-identical before and after, none may appear or vanish; "
         "a liquidation may change only the named (vAMM, trader) record; every 5th step a battery of read-only queries must leave the storage digest unchanged. distinct = (operation, #bystander positions, #on the same vAMM, outcome).",
    essential=["steps-with-bystanders", "query-batteries"],
    text="Held on every transaction of multi-trader histories on shared vAMMs.",
    note="positions read from raw storage; queries get &dyn Storage in this runtime so the query clause is also enforced by typing",
)

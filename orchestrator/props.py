"""Per-property metadata used for evidence files and MANIFEST generation."""

PROPS = {}


def prop(pid, **kw):
    PROPS[pid] = kw


prop(
    "C01",
    level="exploration",
    technique="runtime invariant + history monitor over vAMM reserve observations (direct swap storms and engine-driven histories)",
    design_ref="DESIGN.md §4 C01",
    rule="evaluations = transactions after which a vAMM's reserves or net position changed (W-VAMM direct swaps with a harness account as engine, W-ENG engine histories). "
         "R1 scaled product floor(q*b/D) monotone along every intermediate reserve pair reported by the swap events; R2 base+net position == initial base; "
         "R3 map net-position -> max quote seen (while base >= 1 unit), every revisit must not be lower. distinct = (swap kind, direction, division remainder != 0, "
         "amount/reserve magnitude bucket, revisit of an earlier net position).",
    essential=["swap-legs", "swaps-with-remainder", "R3-revisits"],
    text="Held on every observed swap of the real vAMM code across random reserve pairs, decimals and amounts; exploration level because the quantifier is over all inputs/histories and only sampled ones are executed.",
    note="trusts cw-multi-test dispatch, the vAMM State/event reports and the monitor's 256-bit arithmetic",
)
prop(
    "C02",
    level="exploration",
    technique="runtime invariant monitor at every transaction boundary (sum of raw position records vs vAMM net position), incl. failed and fault-injected transactions",
    design_ref="DESIGN.md §4 C02",
    rule="evaluations = engine transactions (successful, failed, fault-injected) after which sum over ALL raw position records per vAMM was compared with the vAMM's total_position_size. "
         "distinct = (operation, engine reply path read from events, side, prior position direction, outcome).",
    essential=["path:update_position", "path:close_position", "path:liquidation"],
    text="Invariant checked after every transaction of random multi-trader histories with liquidations, reversals, partial closes and injected failures.",
    note="positions are read from the engine's raw storage so no holder can be missed; trusts cw-multi-test atomicity; thorough tier adds a supplementary Miri leg (8 short histories under the UB/overflow interpreter with this monitor attached, reported under coverage.miri)",
)
prop(
    "C03",
    level="exploration",
    technique="conservation checker over balance snapshots + recipient rule on balance deltas, cross-validated against the parsed transfer log",
    design_ref="DESIGN.md §4 C03",
    rule="evaluations = transactions whose pre/post balances of every known account and contract (and cw20 total supply) were compared. R1 total conserved; R2 in engine transactions only sender, engine, "
         "insurance fund and fee pool may change; R3 a trader liquidated by someone else has zero delta; R4 a transaction sent directly to the insurance fund, a vAMM or the price feed (forged Withdraw / swap calls by owners, traders, strangers included) moves no collateral at all. distinct = (operation, reply path, set of roles whose balance moved with sign).",
    essential=["liquidations-by-others", "direct-insurance-withdraw-attempts"],
    text="Conservation and recipient whitelist checked on every transaction for native and cw20 collateral, all fee settings.",
    note="accounts tracked: all actors, all contracts, cw20 supply; a payment to an untracked address shows up as a conservation failure; thorough tier adds a supplementary Miri leg (coverage.miri)",
)
prop(
    "C08",
    level="fault_enumeration",
    technique="failpoint injection at every sub-message (vAMM, cw20, bank, insurance fund) of every engine transaction + byte-level state comparison + residue check",
    design_ref="DESIGN.md §4 C08",
    rule="evaluations = engine transaction attempts. For every engine transaction of every history, attempt k=1,2,... re-issues it with the k-th sub-message execution (bank send, cw20 call, vAMM call, insurance withdrawal) forced to fail, "
         "until an attempt no longer reaches index k (that one is the real execution). R1 a reached fault must make the call fail; R2 after any failed attempt the SHA-256 of the whole chain storage (all contracts + bank) and all balances equal the pre-state; "
         "R3 no tmp-swap / sent-funds / tmp-liquidator key after any transaction. distinct = (operation, fault index, failed sub-message label, outcome) and (operation, message-tree shape, outcome).",
    essential=["fault-points-fired", "unfaulted-ok", "natural-failures"],
    text="Every node of every observed message tree was failed once, on every reachable pre-state the workload produced; fault enumeration over the executions generated, not over all states.",
    note="failpoints are Contract/Bank wrappers in the harness (no repo change); reply-level errors (engine's own reply code failing) occur naturally and are covered by R2/R3",
)
prop(
    "C10",
    level="exploration",
    technique="frame-condition monitor: field-by-field comparison of every bystander's raw position record across each transaction; storage digest across query batteries",
    design_ref="DESIGN.md §4 C10",
    rule="evaluations = engine transactions checked. For each step, every position whose trader is neither the sender nor the trader named by Liquidate must be byte-identical before and after, none may appear or vanish; "
         "a liquidation may change only the named (vAMM, trader) record; every 5th step a battery of read-only queries must leave the storage digest unchanged. distinct = (operation, #bystander positions, #on the same vAMM, outcome).",
    essential=["steps-with-bystanders", "query-batteries"],
    text="Held on every transaction of multi-trader histories on shared vAMMs.",
    note="positions read from raw storage; queries get &dyn Storage in this runtime so the query clause is also enforced by typing",
)
prop(
    "C04",
    level="exploration",
    technique="shadow-equity reference monitor fed by pre-state observations and the executed swap event; per-operation margin/funding ledger; lifetime cash-flow ledger per position; insurance-drain ledger on trader actions",
    design_ref="DESIGN.md §4 C04",
    rule="evaluations = successful ClosePosition calls (whole and partial) plus trader actions that lowered the insurance fund. R1 paid-to-trader == margin + pnl - funding owed (pnl from the quote amount in THIS transaction's swap event vs open notional, sign by direction), +-1, and the position is gone; "
         "R2/R3 a (partial) close that succeeds with equity < -1 is a violation; R4 net fall of the insurance fund in Open/Close/Deposit/Withdraw <= rise of State.bad_debt. "
         "ledger: the margin a later close pays out is only 'the position's margin' if every earlier owner operation booked it correctly, so the per-operation margin/funding identities of C11 R4 (increase, reduce, reversal, partial close, withdraw) run as an auxiliary oracle and report as rule 'ledger:*'. "
         "lifetime: over the whole life of a position (record created -> whole-position close removes it) net margin paid in + signed quote exchanged with the vAMM (swap events) - funding charged (monitor's own F) = 0 within rounding; lives with a liquidation, an operation on negative equity, a reported bad debt or a change by another account are dropped without verdict (rule R1-lifetime-cash-flow). "
         "distinct = (whole/partial, direction, sign pnl, sign funding, vault shortfall, fee config).",
    essential=["whole-closes", "life:closed-lives-checked"],
    text="Payout equals the independently recomputed equity on every observed close, over all sign combinations of PnL and funding the workloads produced.",
    note="the AMM is not modelled: the exchanged quote amount is taken from the executed swap event; C17 ties quotes to execution",
)
prop(
    "C05",
    level="exploration",
    technique="post-condition monitor recomputing margin ratio and free collateral from vAMM-level queries after every successful open / withdraw / deposit",
    design_ref="DESIGN.md §4 C05",
    rule="evaluations = successful OpenPosition / WithdrawMargin / DepositMargin calls. R1 ratio recomputed from OutputAmount/OutputTwap, stored position and cumulative premium fraction >= maintenance after an open that leaves a position; "
         "R2 accepted leverage within [1, 1/initial]; R3 withdrawal: wallet +amount, stored margin -(amount+funding) +-1, free collateral (engine query and recomputation) >= 0, no bad debt; R4 deposit: margin delta == wallet decrease == amount. "
         "distinct = (operation, prior position class, leverage class, pnl source, distance to the maintenance boundary / funding sign / free-collateral class).",
    essential=["R1-ratio-checked", "withdrawals-ok", "deposits-ok", "R3-free-collateral-recomputed"],
    text="Held on every successful trader action of the generated histories incl. boundary leverage and withdraw-exactly-free-collateral macros.",
    note="ratio formula = (margin + pnl - funding)/notional with the smaller-magnitude PnL of spot and 15-minute TWAP",
)
prop(
    "C06",
    level="exploration",
    technique="guard monitor (independent recomputation of the liquidation ratio incl. oracle override, TWAP notional from the monitor's own reserve timeline) + payout oracle over the transaction's transfer log + per-operation bookkeeping ledger as auxiliary oracle",
    design_ref="DESIGN.md §4 C06",
    rule="evaluations = Liquidate calls that succeeded or were refused by the margin guard. R0 engine MarginRatio query vs recomputation (+-1); R1 success only if the recomputed ratio <= maintenance; "
         "the recomputation uses the stored position, the monitor's own funding checkpoints and cumulative fraction, the vAMM's spot quote and the 15-minute TWAP notional, which is cross-checked against (and on disagreement replaced by) the value computed from the monitor's own end-of-block reserve timeline; "
         "R2 full: position removed, liquidator gets half of quote*fee (+-1), trader nothing, remaining margin to insurance (+-1); R3 partial: |size| shrinks by exactly floor(|size|*p/D), no flip/growth, liquidator and insurance get half the penalty each. "
         "Auxiliary oracle (rules prefixed ledger:): the per-operation margin / open-notional / funding ledger of C11 runs alongside, because a liquidation is judged and paid from the stored position and a wrong value booked by an earlier operation of the owner (e.g. a partial close) is consumed by the liquidation only later. "
         "distinct = (path or refusal, direction, deciding ratio spot/TWAP/oracle, distance-to-boundary bucket, caller kind, oracle kind).",
    essential=["full-liquidations", "partial-liquidations", "refused-by-guard", "R0-ratio-compared"],
    text="Every observed liquidation was checked against an independently computed ratio and payout; boundary reached by moving the maintenance ratio onto the observed ratio.",
    note="quote exchanged is read from the swap event of the liquidation itself",
)
prop(
    "C07",
    level="exploration",
    technique="bounded-progress monitor: whenever all stated preconditions are observed right before a Liquidate call, that call must succeed",
    design_ref="DESIGN.md §4 C07",
    rule="evaluations = Liquidate calls (limit 0, any caller) issued when the monitor observed ALL antecedents: recomputed liquidation ratio < maintenance, vAMM open and registered, whole (and partial) closing trade quotable with a non-zero half-penalty, "
         "spot inside the per-block band (by a margin of 2 raw units, or exactly on a limit when reference price, limits and spot are exact quotients: an exact-edge macro produces such states), liquidation fee ratio != 0, insurance fund >= 2*(notional+margin+close quote). Such a call failing is a violation; any uncertain antecedent skips the step. "
         "distinct = (oracle kind, deciding ratio, ratio class negative/below-fee/above-fee, partial setting, vault smaller than remaining margin, paused, direction).",
    essential=["antecedents-met", "antecedents-met-while-paused:full-path", "antecedents-met-while-paused:partial-path", "antecedents-met-with-spot-exactly-on-the-band-limit"],
    text="Unbounded 'can always be liquidated' is restated as immediate progress on every observed under-margined state; held on what was observed, with listed known findings.",
    note="liveness is out of reach for runtime monitoring; the oracle price used is the harness's own last submission",
)
prop(
    "C11",
    level="exploration",
    technique="schedule/amount oracle for PayFunding + exactly-once funding ledger (accounting identity per owner operation, checkpoint advance)",
    design_ref="DESIGN.md §4 C11",
    rule="evaluations = successful PayFunding calls and successful owner operations on existing positions. R1 no settlement before next funding time; R2 delta cumulative fraction == (vAMM TWAP - oracle TWAP)*period/86400 (+-1) with both TWAPs pre-queried at the configured interval, next funding time >= now+period/2; "
         "R3 transfers: vault->insurance min(|A|,vault) if A>0, insurance->vault |A| if A<0, none if A=0, A=net position*fraction/D; R4 per operation (increase, reduce, reversal, close, partial close, withdraw, full liquidation) the margin/payout identity with funding owed F and checkpoint == cumulative fraction afterwards; deposit, partial liquidation, PayFunding and other accounts' transactions must not move checkpoints. "
         "distinct = (operation, F zero/positive/negative, direction) and (settlement lateness, sign of A, capped, sign of net position).",
    essential=["settlements", "R2-premium-checked", "R4-nonzero-funding-ops", "R1-early-settlement-refused"],
    text="Funding schedule, amount and exactly-once charging checked on every observed settlement and owner operation with funding shocks so that F != 0 on most operations.",
    note="identities asserted only when the pre-state equity covers F (the engine clamps margin at 0)",
)
prop(
    "C12",
    level="exploration",
    technique="transfer-log oracle: exact list of fee transfers per successful operation recomputed from notional and stored ratios; per-operation bookkeeping ledger as auxiliary oracle for the stored open notional",
    design_ref="DESIGN.md §4 C12",
    rule="evaluations = successful Open/Close(whole)/Deposit/Withdraw/PayFunding/Liquidate calls. Ratios: the monitor's own record of what each vAMM was given (instantiate message, accepted UpdateConfig fields), never the vAMM's report about itself; R0 a vAMM reporting ratios other than those it was instantiated with. Open: exactly one transfer floor(N*spread/D) to the insurance fund and one floor(N*toll/D) to the fee pool (none when 0), N=floor(margin*leverage/D), payer = trader (cw20) or engine out of attached funds (native), on increase, reduce and both reversal outcomes; "
         "Auxiliary oracle (rules prefixed ledger:): the per-operation ledger of C11 runs alongside, because the fee of a close is charged on the stored open notional, which an earlier partial close may have booked wrongly. "
         "whole close: the same on the pre-state open notional; partial close: the same on the quote amount the engine asks the vAMM to swap (observed change of the quote reserve); deposit/withdraw/funding/liquidation: nothing to the fee pool and no fee-like transfer to the insurance fund. distinct = (operation, reply path, fee zero / rounds-to-zero / non-zero, collateral kind).",
    essential=["fees:open:fee", "fees:close:fee", "fees:no-fee-ops", "fees:open:rounds-to-zero"],
    text="Exact fee lists checked on every successful operation across toll/spread settings incl. ones rounding to zero.",
    note="a partial close is read as a quote-denominated trade: fee basis = the quote amount requested to trade (first clause of the statement)",
)
prop(
    "C14",
    level="exploration",
    technique="state-flag guard monitor (paused / open / registered read from pre-state) over admin-heavy histories + registry well-formedness invariant + shutdown post-condition",
    design_ref="DESIGN.md §4 C14",
    rule="evaluations = engine trading/keeper operations and insurance-fund registry/shutdown calls. R1 paused: Open/Close/Deposit/Withdraw must fail, Liquidate/PayFunding must never fail with the pause error; R2 closed vAMM: no open/close/liquidate/withdraw/funding succeeds; "
         "R3 unregistered vAMM: no open/liquidate/withdraw/funding succeeds; R4 registry has no duplicates, <= 3 entries, IsVamm agrees with GetAllVamm for all probed addresses; R5 after ShutdownVamms sent by the fund's owner (whatever it returned) every registered vAMM naming this fund is closed. "
         "distinct = (paused, open, registered, operation, outcome), (registry op, size, outcome), (shutdown, #registered, #already closed, outcome).",
    essential=["R1-trading-while-paused", "R1-keeper-ok-while-paused", "R2-ops-on-closed-vamm", "R3-ops-on-unregistered-vamm", "shutdowns-by-owner", "R4-add-at-capacity"],
    text="All flag combinations per vAMM were driven with live positions; shutdown exercised from subsets of already-closed vAMMs.",
    note="pause flag is read from the engine's raw state record (not exposed by a query)",
)
prop(
    "C15",
    level="exploration",
    technique="trace monitor with its own per-block reference-price record; band-edge workloads sized by dry-run bisection",
    design_ref="DESIGN.md §4 C15",
    rule="evaluations = OpenPosition / ClosePosition calls on vAMMs with a non-zero fluctuation limit. Reference = monitor's record of spot at the end of the last earlier block in which reserves changed. R1 successful open leaving a position: spot_post within [lower-1, upper+1]; R2 not accepted when spot_pre already outside; "
         "R3a whole close (partial fraction < 100%) must leave the price inside; R3b partial close only when the whole close (evaluated from OutputAmount in the true closing direction) would leave the band, and by the configured fraction; the tolerance at the band limits is 0 instead of 1-2 raw units whenever the reference price, both limits and the price after the whole close are exact quotients (an exact-edge macro lands whole closes exactly on a limit). "
         "distinct = (operation, side, intra-block drift direction, distance-to-edge bucket, same-block trade count, reply path).",
    essential=["opens-under-band", "opens-at-edge", "opens-rejected-by-vamm", "whole-closes-under-band", "partial-closes-under-band", "closes-whose-whole-close-lands-exactly-on-the-band-edge"],
    text="Trades were placed within +-2 raw units of the band edge by bisection, with the price pre-drifted inside the block.",
    note="+-1 raw unit tolerance on band bounds (integer price)",
)
prop(
    "C16",
    level="exploration",
    technique="trace monitor: per-vAMM liquidation-in-block marker kept by the monitor vs observed acceptance/refusal of later Open/Close in the same block",
    design_ref="DESIGN.md §4 C16",
    rule="evaluations = Open/Close calls. restricted := a liquidation succeeded on this vAMM earlier in this block AND the sender's stored position was last updated in this block. R1 restricted calls must fail; R2 unrestricted calls must not fail with the restriction error. "
         "distinct = (operation, liquidation in block, position touched in block, has position, outcome).",
    essential=["restricted-attempts", "unrestricted-in-liquidation-block", "liquidations"],
    text="Same-block schedules of victim, liquidator and bystander trades around liquidations, and the following block.",
    note="'modify' is read as open/close trades (deposit/withdraw are not trades on the position size)",
)
prop(
    "C17",
    level="exploration",
    technique="differential quote-vs-execution monitor (pre-queried InputAmount/OutputAmount vs executed swap events) + slippage-limit oracle with dry-run retry at limit 0 to isolate the failure cause",
    design_ref="DESIGN.md §4 C17",
    rule="evaluations = swaps whose quote was pre-queried (direct vAMM swaps in W-VAMM; engine opens/closes in W-ENG) and limit-carrying calls. R1 executed amount == quoted amount and the requested side moves by exactly the request; R2 (vAMM) a non-zero limit violated by the quote must fail, a satisfied one must not fail with a limit error; "
         "R3 (engine) Open(increase/reduce) and whole Close: limit violated yet Ok, or satisfied (incl. equality) yet failing while the same call with limit 0 succeeds on the same state (dry run); whether an OpenPosition opens / increases / reduces (limit pinned) or reverses is decided by the monitor from the pre-state (no position, zero-size record or same side = open/increase; opposite side with notional below the position's spot value = reduce), not from the path the engine took. distinct = (level, operation, side, limit relation =/slack/violated, outcome).",
    essential=["R1-open-quote-vs-execution", "R1-close-quote-vs-execution", "R3-open-limits", "R3-close-limits"],
    text="Quotes compared with execution on every single-leg swap; limits at quote-1, quote, quote+1 on both sides.",
    note="the engine masks vAMM error texts, hence the dry-run retry with limit 0",
)
prop(
    "C18",
    level="exploration",
    technique="trace monitor with its own timeline of end-of-block spot prices (bounds and exact reference TWAP); layout-agnostic raw snapshot audit; price-feed reference model (W-PF)",
    design_ref="DESIGN.md §4 C18",
    rule="evaluations = TWAP queries checked (vAMM: four interval classes after every reserve change / block advance; feed: GetTwapPrice/GetPrice/GetPreviousPrice over every submission history). vAMM TWAP must lie within [min,max] (+-1) of the prices in effect during the window per the monitor's own timeline; "
         "R4 the value equals (one raw unit of slack per segment) the time-weighted average of the monitor's own one-price-per-block timeline (end-of-block spot, partial first segment, whole-history average when the history is shorter than the interval); "
         "raw reserve snapshots (recognised by shape at any nesting depth under any key: scalar-only object with one integer that is a block height of the run and two or three unsigned decimal strings): no two with one block height, at most reserve-changing blocks + 1, every traded block has one and it holds that block's final reserves, latest == current reserves. Feed: TWAP within min/max of submissions overlapping the window, GetPrice == last submission, GetPreviousPrice{n} == the (rounds-n)-th submission and an error for n >= rounds. "
         "distinct = (interval class, #segments in window, same-block overwrite seen) and feed cases.",
    essential=["twap-queries", "same-block-overwrites", "snapshot-audits", "R4-twap-reference-comparisons-over-changing-prices"],
    text="TWAP bounds checked against an independent price timeline on histories with several trades per block and long gaps.",
    note="prices are integers scaled by D; one raw unit of slack for truncation",
)
prop(
    "C20",
    level="exploration",
    technique="post-condition monitor on caps after position-increasing trades + configuration-bounds invariant after every step under random UpdateConfig sequences",
    design_ref="DESIGN.md §4 C20",
    rule="evaluations = successful opens under a non-zero cap, cap rejections and configuration updates. R1 after a position-increasing open by a non-whitelisted trader: State.open_interest <= cap and |size| <= holding cap; R2 after every step every stored ratio <= 1, maintenance <= initial, TWAP interval in [60, 604800]; "
         "R3 no registered vAMM with decimals != the engine's; R4 a pure increase (fresh position or same-side add) of notional N raises the engine's open interest by at least N (under-counting would let exposure pass the cap unnoticed); R5 a transaction lowers the engine's open interest by at most what its exposure-reducing trade took out of the market (exchanged quote, or twice the closed share of the open notional minus the exchanged quote, whichever is larger; a re-opening leg adds its quote), and a transaction without a trade does not lower it. distinct = (increasing, whitelisted, relation to each cap, reply path) and (config op, outcome).",
    essential=["opens-under-caps", "cap-rejections", "config-updates", "config-updates-rejected", "R3-mismatched-decimals-offered", "R4-pure-increases", "R5-exposure-reducing-trades", "R5-transactions-without-trade"],
    text="Caps raised/lowered between trades, whitelist flips, boundary config values (0, 1, 1+1 raw, crossing maintenance/initial).",
    note="open interest is the engine-wide figure the cap is compared with",
)


def run_c19(prop_id, tier, seed, spec, known, t0):
    """W-INT: perpmon intlog | c19_check.py per shard; merged here."""
    import json, os, subprocess, time
    from orchestrator import BIN, SHARDS, REPLAYS, ROOT, env, match_known, write_evidence
    os.makedirs(SHARDS, exist_ok=True)
    nsh = min(16, os.cpu_count() or 4)
    count = 3000 if tier == "quick" else 60000
    checker = os.path.join(ROOT, "orchestrator", "c19_check.py")
    procs = []
    for i in range(nsh):
        out = os.path.join(SHARDS, "C19-%s-%d.json" % (tier, i))
        if os.path.exists(out):
            os.remove(out)
        cmd = "%s intlog --seed %d --shard %d --budget %d | python3 %s %s" % (BIN, seed, i, count, checker, out)
        procs.append((out, subprocess.Popen(["bash", "-c", "set -o pipefail; " + cmd], env=env())))
    notes, results = [], []
    deadline = time.time() + (900 if tier == "quick" else 7200)
    for out, p in procs:
        try:
            p.wait(timeout=max(1, deadline - time.time()))
        except subprocess.TimeoutExpired:
            p.kill()
            notes.append("shard watchdog fired (inconclusive)")
            continue
        if p.returncode != 0 or not os.path.exists(out):
            notes.append("shard failed with exit %s (inconclusive)" % p.returncode)
            continue
        results.append(json.load(open(out)))
    m = {"histories": 0, "steps": 0, "failed_tx": 0, "panics_as_reverts": 0, "evaluations": 0, "distinct": set(), "counters": {}, "samples": [],
         "violations": [], "inconclusive": [], "kinds": {}, "configs": {}, "workloads": {"W-INT": len(results)}, "errors": {}, "extra": [], "wall_s": 0}
    records = boundary = 0
    byk = {}
    for r in results:
        m["evaluations"] += r["evaluations"]
        m["distinct"].update(r["distinct"])
        records += r["records"]
        boundary += r["boundary_records"]
        for k, v in r["counters"].items():
            m["counters"][k] = m["counters"].get(k, 0) + v
        if len(m["samples"]) < 6:
            m["samples"].extend(r["samples"][:2])
        for v in r["violations"]:
            e = byk.get(v["signature"])
            if e:
                e["count"] += v["count"]
            else:
                byk[v["signature"]] = v
    # supplementary Miri leg (thorough only): the same workload under the UB / overflow-checking interpreter
    miri_note = None
    if tier == "thorough":
        mout = os.path.join(SHARDS, "C19-miri.json")
        if os.path.exists(mout):
            os.remove(mout)
        menv = env()
        menv["MIRIFLAGS"] = "-Zmiri-disable-isolation"
        menv["CARGO_TARGET_DIR"] = os.path.join(ROOT, "target", "miri")
        cmd = "cd %s && cargo +nightly miri run --offline -- intlog --seed %d --shard 1 --budget 300 2>%s | python3 %s %s" % (
            os.path.join(ROOT, "harness"), seed, os.path.join(SHARDS, "C19-miri.stderr"), checker, mout)
        try:
            mp = subprocess.run(["bash", "-c", "set -o pipefail; " + cmd], env=menv, timeout=1800)
            if mp.returncode == 0 and os.path.exists(mout):
                mr = json.load(open(mout))
                miri_note = {"records_interpreted": mr["records"], "evaluations": mr["evaluations"], "violations": len(mr["violations"]), "result": "no undefined behaviour reported by Miri"}
                for v in mr["violations"]:
                    e = byk.get(v["signature"])
                    if e:
                        e["count"] += v["count"]
                    else:
                        byk[v["signature"]] = v
            else:
                err = open(os.path.join(SHARDS, "C19-miri.stderr")).read()[-400:] if os.path.exists(os.path.join(SHARDS, "C19-miri.stderr")) else ""
                miri_note = {"result": "Miri leg did not complete (harness-level note, not a verdict)", "stderr_tail": err}
        except subprocess.TimeoutExpired:
            miri_note = {"result": "Miri leg timed out (harness-level note, not a verdict)"}
    m["violations"] = list(byk.values())
    m["steps"] = records
    m["counters"]["operand-pairs"] = records
    m["counters"]["boundary-pairs(exhaustive)"] = boundary
    open_sigs, listed, unlisted = match_known(prop_id, m["violations"], known)
    listed_counts = {sig: sum(v["count"] for v in vs) for sig, vs in listed.items()}
    for k in known:
        if k["property"] == prop_id and k.get("status") == "open":
            print("KNOWN-FINDING: property=%s %s [signature %s; reproduced %d times in this run]" % (prop_id, k["what"], k["signature"], listed_counts.get(k["signature"], 0)))
    rc = 0
    if unlisted:
        os.makedirs(REPLAYS, exist_ok=True)
        for idx, (sig, vs) in enumerate(sorted(unlisted.items())):
            path = os.path.join(REPLAYS, "C19-%s-%d.json" % (seed, idx))
            json.dump(vs[0]["replay"], open(path, "w"))
            print("VIOLATION property=C19 replay=%s rule=%s signature=%s count=%d" % (path, vs[0]["rule"], sig, vs[0]["count"]))
            print("  detail: %s" % vs[0]["detail"][:400])
        rc = 1
    elif not results or records == 0 or boundary == 0:
        rc = 2
    wall = time.time() - t0
    extra_cov = {"exhaustive": True, "operand_pairs": records, "boundary_pairs": boundary}
    if miri_note:
        extra_cov["miri"] = miri_note
    write_evidence(prop_id, tier, seed, m, spec, len(unlisted), notes, wall, listed_counts, extra_cov)
    print("%s property=C19 tier=%s seed=%s operand_pairs=%d boundary_pairs=%d evaluations=%d distinct=%d unlisted_violations=%d wall=%.1fs"
          % ({0: "HELD", 1: "VIOLATED", 2: "INCONCLUSIVE"}[rc], tier, seed, records, boundary, m["evaluations"], len(m["distinct"]), len(unlisted), wall))
    for n in notes:
        print("  note: %s" % n)
    return rc


prop(
    "C19",
    level="exploration",
    technique="offline log checker: every outcome of the real Integer API on recorded operand pairs re-derived with Python big integers (independent language, arbitrary precision)",
    design_ref="DESIGN.md §4 C19",
    rule="evaluations = individual outcome checks (operator, assignment form, checked form, unary, comparison chain, string/serde round trip, zero/sign consistency of every operand and result) over operand pairs: the boundary set "
         "(0, small, powers of two +-1 around 2^31..2^127, 2^64+-1, powers of ten, 2^128-2, 2^128-1; 43 magnitudes x both signs) is enumerated exhaustively (exhaustive=true refers to that finite set only), plus structured random pairs "
         "(equal magnitudes, off-by-one, exact quotients, complements to 2^128-1). distinct = (operation, sign of a, sign of b, |a| vs |b|, overflow / zero / ok).",
    exhaustive=True,
    runner=run_c19,
    text="Every operation of the public API compared with mathematical integers on an exhaustively enumerated boundary set and random structured pairs.",
    note="unchecked operators are allowed to panic exactly when the result is not representable; their wrapped results are not asserted",
)
prop(
    "C09",
    level="exploration",
    technique="exhaustive access-control matrix by dry-run: every execute variant x sender kind x phase on live state, each cell required to be non-vacuous (same payload accepted for the role holder)",
    design_ref="DESIGN.md §4 C09",
    rule="evaluations = matrix cells executed (dry runs with checkpoint/restore on the same state). For every execute-message variant of the vAMM, engine (privileged ones), insurance fund, fee pool and the repository's price feed, with a payload that the role holder's call accepts on that state, "
         "every other sender kind (each role holder, every contract address, trader, liquidator, stranger, former holders) must be refused with the whole storage digest unchanged; phases: before any transfer, after each of two chained transfers of every role, after re-pointing the vAMM's engine / insurance fund; and on a vAMM instantiated without margin engine and opened by its owner nobody at all may swap or settle funding. "
         "The role holder being refused with an authorisation error is a violation. exhaustive=true: all variants x all sender kinds x all phases are enumerated for each sampled deployment/state; payloads and states are sampled. distinct = (contract, variant, sender kind, phase, outcome).",
    exhaustive=True,
    essential=["matrix-cells", "engine-unset-cells", "role-transfer-rounds", "cell:vamm:swap_input", "cell:vamm:set_open", "cell:engine:set_pause", "cell:insurance:withdraw", "cell:insurance:shutdown_vamms", "cell:fee_pool:send_token", "cell:pricefeed:append_price", "cell:engine:update_config", "cell:vamm:settle_funding"],
    text="Complete variant x sender matrix on states with live positions, before and after chained role transfers.",
    note="self-calls (sender = the contract called) are excluded: no contract in the repository messages itself and a contract cannot originate a transaction",
)
prop(
    "C13",
    level="exploration",
    technique="differential twin monitor: cw20 and native deployments driven in lock-step, native call attaching exactly what the cw20 twin pulled; first divergence reported",
    design_ref="DESIGN.md §4 C13",
    rule="evaluations = engine operations executed on both twins (identical parameters, cw20 6dp vs native uwasm). After each, outcome (ok/err), every position field, vAMM state, engine State and the net balance change of every party (each trader, liquidator, vault, insurance fund, fee pool) must agree. "
         "distinct = (operation, cw20 reply path, fees configured, something pulled from the caller, vault shortfall, outcome).",
    essential=["twin:open:update_position", "twin:close:close_position", "twin:open:reverse_position+update_position", "twin:liquidate:liquidation"],
    text="Lock-step differential execution over random histories with and without fees, reversals of every size class and vault shortfalls.",
    note="a history stops at its first divergence (the twins are no longer comparable afterwards)",
)
